"""C01 (formulas), C02 (warm-up), C04 (no look-ahead), C15 (ranges), C18 (unit independence)
for the 61 indicators."""
import random, json, collections, os, math
import vlib
from vlib import il, fl, streams, h2f, f2h
from catalog import CAT, NO_IDLE_METHOD, make_inputs, REGIMES, gen_ohlcv


def ind_line(name, ns, fs, ins):
    return 'IND %s %s %s %s' % (name, il(ns), fl(fs), streams(ins))


def parse_ind(line):
    """-> dict(status, meta{}, outs[[hex]], spec[[hex]] or None)"""
    if not line.startswith('ok'):
        return {'status': line.split(' ')[0], 'raw': line}
    parts = line.split(' | ')
    meta = {}
    for kv in parts[0].split(' ')[1:]:
        if '=' in kv:
            k, v = kv.split('=', 1)
            meta[k] = v
    outs = vlib.parse_hex_streams(parts[1]) if len(parts) > 1 else []
    spec = vlib.parse_hex_streams(parts[2]) if len(parts) > 2 else None
    return {'status': 'ok', 'meta': meta, 'outs': outs, 'spec': spec}


def idle_of(name, ns):
    """warm-up as registered (computed the same way as the Lean Registry) — used only to pick lengths"""
    n = lambda k: ns[k] if k < len(ns) else 0
    try:
        return {
            'Apo': n(1) - 1, 'Aroon': n(0) - 1, 'Cci': 2 * n(0) - 2, 'Dema': n(0) + n(1) - 2, 'Kama': n(0),
            'Kdj': n(0) + n(1) + n(2) - 3, 'Macd': n(1) + n(2) - 2, 'MassIndex': n(0) + n(1) + n(2) - 3,
            'Tema': n(0) + n(1) + n(2) - 3, 'Trix': 3 * n(0) - 2, 'Tsi': n(0) + n(1) - 1,
            'IchimokuCloud': n(2) - 1, 'Ppo': n(1) + n(2) - 2, 'Pvo': n(1) + n(2) - 2,
            'AwesomeOscillator': n(1) - 1, 'ChaikinOscillator': n(1) - 1, 'StochasticOscillator': n(0) + n(1) - 2,
            'StochasticRsi': 2 * n(0) - 1, 'Po': 2 * n(0) - 2, 'UlcerIndex': 2 * n(0) - 2, 'Rsi': n(0), 'Emv': n(0),
            'Fi': n(0), 'Mfi': n(0), 'ChandelierExit': n(0), 'KeltnerChannel': n(0), 'Nvi': 1, 'Vpt': 1,
            'Atr': n(1) + 3, 'SuperTrend': n(1) + 3, 'KeltnerChannelG': n(1) + 3, 'StochasticRsiG': n(0) + n(1) - 1, 'Envelope': n(1), 'Hma': n(0) + 3,
        }.get(name, max(0, n(0) - 1) if ns else 0)
    except Exception:
        return 0


def gen_cases(rng, tier, names=None, per=None):
    """-> list of (name, ns, fs, ins, regime)"""
    hi = 12 if tier == 'quick' else 30
    per = per or (14 if tier == 'quick' else 60)
    maxlen = 120 if tier == 'quick' else 300
    cases = []
    for name in (names or CAT.keys()):
        kinds, cfg, (dns, dfs) = CAT[name]
        for j in range(per):
            if j == 0:
                ns, fs = list(dns), list(dfs)          # library defaults
                n = rng.randrange(idle_of(name, ns) + 2, idle_of(name, ns) + 60)
            else:
                ns, fs = cfg(rng, hi if j % 3 else 5)
                ns, fs = list(ns), list(fs)
                w = idle_of(name, ns)
                choices = [0, 1, 2, max(0, w - 1), w, w + 1, 2 * w + 2, rng.randrange(0, maxlen), rng.randrange(w, w + 40)]
                n = choices[j % len(choices)]
            ins, regime, _ = make_inputs(rng, name, n, REGIMES[(j // 2) % len(REGIMES)] if j % 2 else None)
            cases.append((name, ns, fs, ins, regime))
        # every indicator meets the cancellation-prone regimes on a series comfortably longer than its warm-up
        for regime in ('offset', 'outlier', 'ties', 'anyorder', 'anyorder', 'micro'):
            ns, fs = cfg(rng, hi)
            ns, fs = list(ns), list(fs)
            w = idle_of(name, ns)
            ins, regime, _ = make_inputs(rng, name, w + rng.randrange(12, 60), regime)
            cases.append((name, ns, fs, ins, regime))
        # the smallest admissible parameters (period 1 and the like) and the other extreme combinations, always — not only when drawn
        from c_runtime import PatternRng
        for pat in (0, 1, 2):
            try:
                ns, fs = cfg(PatternRng(rng, pat), hi)
            except Exception:
                continue
            ns, fs = list(ns), list(fs)
            w = idle_of(name, ns)
            ins, regime, _ = make_inputs(rng, name, w + rng.randrange(4, 40), rng.choice(['walk', 'zigzag', 'wide']))
            cases.append((name, ns, fs, ins, regime))
        # long streams: anything an implementation does every so many values (re-summing a window, rebuilding a tree, refreshing
        # a cache) only shows on series much longer than any period
        for n in ([rng.choice([1100, 1300, 2100])] if tier == 'quick' else [1100, 2100, 4200, 9000]):
            ns, fs = (list(dns), list(dfs)) if n % 2 else cfg(rng, 8)
            ns, fs = list(ns), list(fs)
            ins, regime, _ = make_inputs(rng, name, n, rng.choice(['walk', 'wide', 'zigzag']))
            cases.append((name, ns, fs, ins, regime + '+long'))
    return cases


KNOWN_C01 = None


def run_both(cases, prefix='i', spec=False, long_spec=()):
    """spec=True also evaluates the documented formula in the driver (slow: only C01 needs it)"""
    lines = []
    for i, (name, ns, fs, ins, regime) in enumerate(cases):
        lines.append('%s%d %s' % (prefix, i, ind_line(name, ns, fs, ins)))
    go = vlib.run_go(lines)
    # the documented formula is evaluated by un-memoised recursion over positions: long series go to the model only (Go = model
    # bit for bit there; model = formula is what the theorems say)
    # (long_spec: indicators whose formula is cheap enough to be evaluated on long series as well)
    model = vlib.run_model([l if (spec and (not str(c[4]).endswith('+long') or c[0] in long_spec)) else l.replace(' IND ', ' INDM ', 1) for l, c in zip(lines, cases)])
    return lines, go, model


def vals_close(a_hex, b_hex, scale):
    a, b = h2f(a_hex), h2f(b_hex)
    if a != a or b != b or a in (math.inf, -math.inf) or b in (math.inf, -math.inf):
        return None        # exempt: undefined at this position
    if a_hex == b_hex or a == b:
        return True
    return abs(a - b) <= 1e-9 * max(abs(a), abs(b)) + 1e-10 * scale


LAST_MISMATCH_COMPONENTS = set()


MISMATCH_IDS = set()      # cases on which Go differs from the as-is model in the last correspondence run


def correspondence(res, cases, lines, go, model, what):
    """Go vs model on every output of every case. Returns number of mismatching cases."""
    mism = 0
    LAST_MISMATCH_COMPONENTS.clear()
    MISMATCH_IDS.clear()
    for i, c in enumerate(cases):
        cid = lines[i].split(' ')[0]
        g, m = parse_ind(go.get(cid, 'missing')), parse_ind(model.get(cid, 'missing'))
        if g['status'] != 'ok' or m['status'] != 'ok':
            if g['status'] == m['status'] == 'ok':
                continue
            mism += 1
            MISMATCH_IDS.add(cid)
            res.violation({'broken': 'correspondence', 'name': 'IND ' + c[0], 'config': c[1:3], 'line': lines[i][:2000],
                           'go_output': go.get(cid, 'missing')[:500], 'model_output': model.get(cid, 'missing')[:500]},
                          no_failing_input=(what != 'own-oracle'))
            continue
        scale = max([1.0] + [abs(v) for s in c[3] for v in s])
        diff, nv, inex = vlib.cmp_streams(g['outs'], m['outs'], scale=scale * 1e-1)
        if diff is not None:
            mism += 1
            MISMATCH_IDS.add(cid)
            LAST_MISMATCH_COMPONENTS.add(c[0])
            res.violation({'broken': 'correspondence', 'name': 'IND ' + c[0], 'config': {'ns': c[1], 'fs': c[2]},
                           'regime': c[4], 'first_difference': diff, 'line': lines[i][:4000]}, no_failing_input=True)
    return mism


def load_findings(prop):
    return {f['component']: f for f in vlib.known_findings(prop)}


def strategy_prefix(res, tier, rng, replay):
    """strategies (base, compound, decorated): a run on the first m snapshots gives the first m actions of the full run, and
    rewriting the snapshots from m on leaves the first m actions unchanged (Go vs Go, exact)"""
    import c_strategies as cs
    if replay:
        rp = json.load(open(replay))
        if 'strategy_case' not in rp:
            return 0, 0
        c = rp['strategy_case']
        cases = [(c['name'], c['ns'], c['fs'], c['ohlcv'], 'replay')]
    else:
        cases = [c for c in cs.gen_strat_cases(rng, tier, per=(6 if tier == 'quick' else 40)) if len(c[3]['c']) > cs.strat_idle(c[0], c[1]) + 3]
        # compounds whose members emit action streams of different lengths (the Smma / Alligator strategies emit n + 1: C05 finding)
        for wname in list(cs.WRAPPED) + ['And:Smma+BuyAndHold', 'Or:Alligator+Rsi', 'Majority:Smma+Bop+Rsi']:
            for _ in range(3 if tier == 'quick' else 15):
                o, regime = gen_ohlcv(rng, rng.randrange(14, 90))
                cases.append((wname, [], [], o, regime))
    lines, meta, reuse_meta = [], [], []
    for i, c in enumerate(cases):
        name, ns, fs, o, regime = c
        n = len(o['c'])
        w = cs.strat_idle(name, ns) if ':' not in name else 6
        if n <= w + 1:
            continue
        lines.append('f%d %s' % (i, cs.strat_line(name, ns, fs, o)))
        for j in range(2):
            m = rng.randrange(w + 1, n) if rng.random() < 0.7 else n - 1
            if j == 1 and rng.random() < 0.3:
                m = rng.randrange(1, w + 2)         # a prefix that ends inside the warm-up
            po = {k: o[k][:m] for k in o}
            lines.append('f%d_p%d %s' % (i, j, cs.strat_line(name, ns, fs, po)))
            o2, _ = gen_ohlcv(rng, n)
            so = {k: o[k][:m] + o2[k][m:] for k in o}
            lines.append('f%d_s%d %s' % (i, j, cs.strat_line(name, ns, fs, so)))
            meta.append((i, j, m))
            if j == 0:
                # the same three runs on ONE instance, whole series first: what was seen in an earlier run is "later data" too
                envs = [[x[k] for k in 'ohlcv'] for x in (o, po, so)]
                lines.append('u%d REUSE STRAT %s %s %s seq %s' % (i, name, il(ns), fl(fs), '/'.join(streams(e) for e in envs)))
                reuse_meta.append((i, m))
    go = vlib.run_go(lines)
    bad = 0
    for (i, m) in reuse_meta:
        g = go.get('u%d' % i, 'missing')
        if not g.startswith('ok seq='):
            continue
        runs = [r.split(',') if r not in ('-', '_', '') else [] for r in g[len('ok seq='):].split(' conc=')[0].split('#')]
        if len(runs) != 3:
            continue
        for which, r in (('run on the first m snapshots, on an instance that has already processed the whole series', runs[1]),
                         ('snapshots rewritten from m on, on that same instance', runs[2])):
            if r[:m] != runs[0][:m]:
                bad += 1
                if bad <= 8:
                    k = next((t for t in range(m) if t >= len(r) or t >= len(runs[0]) or r[t] != runs[0][t]), 0)
                    name, ns, fs, o, regime = cases[i]
                    res.violation({'strategy_case': {'name': name, 'ns': ns, 'fs': fs, 'ohlcv': o}, 'cut': m, 'relation': which,
                                   'first_difference': {'index': k, 'full_run': runs[0][k] if k < len(runs[0]) else None, 'derived_run': r[k] if k < len(r) else None},
                                   'lines': [[l for l in lines if l.startswith('u%d ' % i)][0].split(' ', 1)[1]],
                                   'oracle': 'the first m actions depend on the first m snapshots only (not on anything an earlier run has seen)'})
    for (i, j, m) in meta:
        full = go.get('f%d' % i, 'missing')
        if not full.startswith('ok'):
            continue
        fa = full.split(' | ')[1].split(',')
        for kind in ('p', 's'):
            g = go.get('f%d_%s%d' % (i, kind, j), 'missing')
            if not g.startswith('ok'):
                continue
            ga = g.split(' | ')[1].split(',')
            if ga == ['-'] or ga == ['']:
                ga = []
            # the first m actions agree, and whatever else the run on the prefix emits (Holds that pad a warm-up longer than the
            # prefix, the surplus action of the Smma/Alligator finding) is what the whole run has at those places
            if ga[:m] != fa[:m] or (kind == 'p' and ga != fa[:len(ga)]):
                bad += 1
                if bad <= 8:
                    k = next((t for t in range(max(m, len(ga))) if t >= len(ga) or t >= len(fa) or ga[t] != fa[t]), 0)
                    name, ns, fs, o, regime = cases[i]
                    res.violation({'strategy_case': {'name': name, 'ns': ns, 'fs': fs, 'ohlcv': o}, 'cut': m,
                                   'relation': 'run on the first m snapshots' if kind == 'p' else 'snapshots rewritten from m on',
                                   'first_difference': {'index': k, 'full_run': fa[k] if k < len(fa) else None, 'derived_run': ga[k] if k < len(ga) else None},
                                   'oracle': 'the first m actions depend on the first m snapshots only'})
    return bad, len(lines)


def strategy_scaling(res, tier, rng, replay):
    """every strategy's action stream is unchanged when all prices (or all volumes) are multiplied by a power of two"""
    import c_strategies as cs
    if replay:
        rp = json.load(open(replay))
        if 'strategy_case' not in rp:
            return 0, 0, 0
        c = rp['strategy_case']
        cases = [(c['name'], c['ns'], c['fs'], c['ohlcv'], 'replay')]
        factors = [tuple(rp['factors'])]
    else:
        cases = cs.gen_strat_cases(rng, tier, per=(5 if tier == 'quick' else 30))
        # … and Stop-Loss decorators over the whole range of percentages (0.5 %, 30 %, and 100 % or more: a stop that is never reached)
        for wname in list(cs.WRAPPED) + ['StopLossP0.005:Macd', 'StopLossP0.3:SuperTrend', 'StopLossP1:Macd', 'StopLossP2.5:SuperTrend', 'StopLossP1.5:Rsi']:
            for _ in range(3 if tier == 'quick' else 15):
                o, regime = gen_ohlcv(rng, rng.randrange(12, 90), rng.choice(['walk', 'wide', 'zigzag', 'down', 'up', 'ties']))
                cases.append((wname, [], [], o, regime))
        factors = None
    lines, meta = [], []
    for i, c in enumerate(cases):
        name, ns, fs, o, regime = c
        # a smaller and a larger currency unit (an absolute threshold shows in one direction only), another volume unit, both
        fl = factors or [(2.0 ** rng.choice([-20, -14, -10, -3]), 1.0), (2.0 ** rng.choice([1, 7, 15, 20]), 1.0), (1.0, 2.0 ** rng.choice([-20, -8, 1, 12])),
                         (2.0 ** rng.choice([-17, -12, 4]), 2.0 ** rng.choice([-6, 9]))]
        lines.append('q%d_b %s' % (i, cs.strat_line(name, ns, fs, o)))
        for j, (cp, cv) in enumerate(fl):
            so = {k: [x * (cv if k == 'v' else cp) for x in o[k]] for k in o}
            lines.append('q%d_%d %s' % (i, j, cs.strat_line(name, ns, fs, so)))
            meta.append((i, j, cp, cv))
    go = vlib.run_go(lines)
    bad = 0
    cells = set()
    for (i, j, cp, cv) in meta:
        b, s = go.get('q%d_b' % i, 'missing'), go.get('q%d_%d' % (i, j), 'missing')
        name, ns, fs, o, regime = cases[i]
        cells.add((name, cp != 1.0, cv != 1.0))
        if not b.startswith('ok') or not s.startswith('ok'):
            continue
        if b.split(' | ')[1] != s.split(' | ')[1]:
            bad += 1
            if bad <= 10:
                ba, sa = b.split(' | ')[1].split(','), s.split(' | ')[1].split(',')
                k = next((t for t, (x, y) in enumerate(zip(ba, sa)) if x != y), min(len(ba), len(sa)))
                res.violation({'strategy_case': {'name': name, 'ns': ns, 'fs': fs, 'ohlcv': o}, 'factors': [cp, cv],
                               'first_difference': {'index': k, 'original_action': ba[k] if k < len(ba) else None, 'scaled_action': sa[k] if k < len(sa) else None},
                               'oracle': 'the action stream of a strategy does not change when every price (volume) is multiplied by a positive constant'})
    # the outcome of a recommendation stream (a ratio of prices) does not depend on the currency unit either
    tl, tmeta = [], []
    for t in range(40 if tier == 'quick' else 600):
        n = rng.randrange(2, 50)
        word = cs.gen_word(rng, n)
        closes = cs.gen_closes(rng, n)
        k = 2.0 ** rng.choice([-30, -20, -10, -3, 2, 8, 15, 20, 24])
        tl.append('z%d %s' % (t, cs.tree_line('w:0', [word], closes)))
        tl.append('z%d_s %s' % (t, cs.tree_line('w:0', [word], [c * k for c in closes])))
        tmeta.append((t, word, closes, k))
    tgo = vlib.run_go(tl)
    for (t, word, closes, k) in tmeta:
        a, b = tgo.get('z%d' % t, 'missing'), tgo.get('z%d_s' % t, 'missing')
        if not a.startswith('ok') or not b.startswith('ok'):
            continue
        if a.split(' | ')[1] != b.split(' | ')[1]:
            bad += 1
            if bad <= 10:
                res.violation({'outcome_case': {'word': word, 'closes': closes, 'price_factor': k}, 'original': a[:300], 'scaled': b[:300],
                               'oracle': 'Outcome(values * k, actions) = Outcome(values, actions) bit for bit for a power of two k'})
    return bad, len(lines) + len(tl), len(cells)


# =====================================================================================
def sensitivity(c, m):
    """How much the documented formula itself moves, position by position, when every input is perturbed by a relative
    1e-10: positions where that movement dwarfs the Go-vs-formula discrepancy have a cancelling denominator / difference
    (ill-conditioned) and are exempt, as the property allows.  Only computed for cases that fail the plain comparison."""
    prng = random.Random(987654321)
    pert = [[v * (1.0 + 1e-10 * prng.uniform(-1, 1)) for v in s] for s in c[3]]
    l2, g2, m2 = run_both([(c[0], c[1], c[2], pert, c[4])], prefix='p', spec=True)
    mm = parse_ind(m2.get('p0', 'x'))
    if mm['status'] != 'ok' or mm['spec'] is None or m['spec'] is None:
        return None
    out = []
    for s1, s2 in zip(m['spec'], mm['spec']):
        row = []
        for a, b in zip(s1, s2):
            x, y = h2f(a), h2f(b)
            row.append(math.inf if (x != x or y != y or abs(x) == math.inf or abs(y) == math.inf) else abs(x - y))
        out.append(row)
    return out


def spec_compare(c, g, m, sens=None):
    """Go outputs vs the documented formula (spec streams printed by the driver).
    Aligns by position: Go output k of an indicator with declared idle w is position w+k; spec
    stream element k is position start+k.  Returns (bad, compared, exempt) where bad is None or a dict."""
    idle = int(m['meta']['idle'])
    starts = [int(s) for s in m['meta'].get('starts', '').split(',') if s not in ('', '-')]
    if m['spec'] is None or not starts:
        return None, 0, 0
    scale = max([1.0] + [abs(v) for s in c[3] for v in s])
    compared = exempt = 0
    for k, (o, s) in enumerate(zip(g['outs'], m['spec'])):
        st = starts[k] if k < len(starts) else idle
        if c[0] == 'Obv' and o and s:
            # the documented recurrence does not define OBV before the first bar: compare relative to the first value
            base_g, base_s = h2f(o[0]), h2f(s[0])
            o = [f2h(h2f(v) - base_g) for v in o]
            s = [f2h(h2f(v) - base_s) for v in s]
        for j, a in enumerate(o):
            pos = idle + j
            sj = pos - st
            if sj < 0 or sj >= len(s):
                continue
            r = vals_close(a, s[sj], scale)
            if r is None:
                fv = h2f(s[sj])
                if fv == fv and abs(fv) != math.inf:
                    # the exemption is for positions where the documented formula is undefined; here it has a value and the code has none
                    return ({'output': k, 'position': pos, 'go': repr(h2f(a)), 'formula': fv, 'kind': 'nonfinite-where-defined'}, compared, exempt)
                exempt += 1
                continue
            compared += 1
            if r is False:
                if sens is not None and k < len(sens) and sj < len(sens[k]) and abs(h2f(a) - h2f(s[sj])) <= 1e-2 * sens[k][sj]:
                    exempt += 1        # the discrepancy is what a 1e-12 relative change of the inputs does to the formula itself
                    continue
                return ({'output': k, 'position': pos, 'go': h2f(a), 'formula': h2f(s[sj])}, compared, exempt)
    return None, compared, exempt


def known_line(f):
    return '%s: %s' % (f['component'], f['text'])


def replay_cases(replay):
    rep = json.load(open(replay))
    out = []
    for c in rep.get('cases', []) or ([rep['case']] if 'case' in rep else []):
        out.append((c['name'], c['ns'], c['fs'], c['inputs'], c.get('regime', 'replay')))
    return out


def case_json(c):
    return {'name': c[0], 'ns': c[1], 'fs': c[2], 'inputs': c[3], 'regime': c[4]}


def shrink_case(c, fails):
    """shorten the series (suffix, then prefix) while the failure persists"""
    name, ns, fs, ins, reg = c
    n = len(ins[0]) if ins else 0
    best = c
    # drop suffix
    lo = 0
    for cut in range(n - 1, -1, -1):
        cand = (name, ns, fs, [s[:cut] for s in ins], reg)
        if fails(cand):
            best = cand
        else:
            break
    # drop prefix
    ins = best[3]
    while ins and len(ins[0]) > 1:
        cand = (name, ns, fs, [s[1:] for s in ins], reg)
        if fails(cand):
            best, ins = cand, cand[3]
        else:
            break
    return best


def witness_cases(prop):
    out = []
    for f in vlib.known_findings(prop):
        w = f.get('witness')
        if w:
            out.append(((w['name'], w['ns'], w['fs'], w['inputs'], 'witness'), f))
    return out


def check_c01(res, tier, replay):
    rng = random.Random(vlib.seed())
    vlib.apply_obligations(res, 'C01')
    findings = load_findings('C01')
    wit = [] if replay else witness_cases('C01')
    cases = replay_cases(replay) if replay else [w for w, _ in wit] + gen_cases(rng, tier)
    lines, go, model = run_both(cases, spec=True)
    mism = correspondence(res, cases, lines, go, model, 'C01')
    compared = exempt = bad_cases = conditioned = 0
    cells = set()
    known_seen = collections.defaultdict(int)
    known_fixed = set(findings)
    per = collections.Counter()
    for i, c in enumerate(cases):
        cid = lines[i].split(' ')[0]
        g, m = parse_ind(go.get(cid, 'missing')), parse_ind(model.get(cid, 'missing'))
        if g['status'] != 'ok' or m['status'] != 'ok':
            continue
        n = len(c[3][0]) if c[3] else 0
        bad, cmpd, ex = spec_compare(c, g, m)
        if bad is not None:
            sens = sensitivity(c, m)
            if sens is not None:
                bad, cmpd, ex = spec_compare(c, g, m, sens)
                conditioned += 1
        compared += cmpd
        exempt += ex
        per[c[0]] += cmpd
        if cmpd:
            cells.add((c[0], tuple(c[1]), min(n // 10, 12), c[4]))
        if bad is None:
            continue
        scale = max([1.0] + [abs(v) for s in c[3] for v in s])
        same_as_model = vlib.cmp_streams(g['outs'], m['outs'], scale=scale * 0.1)[0] is None
        if c[0] in findings and same_as_model:
            known_seen[c[0]] += 1
            known_fixed.discard(c[0])
            continue
        bad_cases += 1

        def fails(cand):
            l2, g2, m2 = run_both([cand], prefix='s', spec=True)
            gg, mm = parse_ind(g2.get('s0', 'x')), parse_ind(m2.get('s0', 'x'))
            if not (gg['status'] == 'ok' and mm['status'] == 'ok' and spec_compare(cand, gg, mm)[0] is not None):
                return False
            sn = sensitivity(cand, mm)
            return sn is None or spec_compare(cand, gg, mm, sn)[0] is not None
        small = shrink_case(c, fails) if n <= 200 else c
        l2, g2, m2 = run_both([small], prefix='s', spec=True)
        gg, mm = parse_ind(g2.get('s0', 'x')), parse_ind(m2.get('s0', 'x'))
        res.violation({'case': case_json(small), 'shrunk_from': n, 'first_difference': spec_compare(small, gg, mm)[0],
                       'go_output': [[h2f(v) for v in s] for s in gg.get('outs', [])],
                       'formula_output': [[h2f(v) for v in s] for s in (mm.get('spec') or [])],
                       'oracle': 'documented formula (Spec/Indicators.lean) evaluated at the same positions',
                       'note': 'Go output differs from the documented formula' +
                               ('' if same_as_model else ' and from the as-is model')})
    for comp, f in findings.items():
        if known_seen.get(comp):
            res.known_hit.append(known_line(f) + ' [witness and %d generated cases differ from the documented formula, equal to the as-is model]' % known_seen[comp])
    if not replay:
        ac_n, ac_bad = check_alt_constructors(res, rng, tier)
        bad_cases += ac_bad
        res.coverage['default_and_variant_constructors'] = ac_n
    if not replay:
        zi_n, zi_bad = check_int_indicators(res, rng, tier, 'C01')
        bad_cases += zi_bad
        res.coverage['integer_element_type_cases'] = zi_n
    res.samples = [{'case': lines[i][:240] + '…', 'go': go.get(lines[i].split(' ')[0], '')[:200]} for i in (0, len(lines) // 2)] if lines else []
    res.coverage.update({
        'evaluations': len(cases), 'distinct_nontrivial': len(cells),
        'rule': 'indicator x configuration x length-decile x regime, counted when at least one non-exempt value was '
                'compared with the documented formula; lengths from {0,1,2,w-1,w,w+1,2w+2} and random; regimes walk, flat, '
                'up, down, zigzag, ties, plateau (+signed, zeros for plain numeric series); dyadic values k/64',
        'values_compared_with_formula': compared, 'exempt_positions': exempt, 'cases_re_examined_for_conditioning': conditioned, 'values_per_indicator': dict(per),
        'traces_validated_against_impl': len(cases) - mism, 'go_vs_model_mismatches': mism,
        'formula_violations': bad_cases, 'known_findings_seen': dict(known_seen),
        'known_findings_not_reproduced': sorted(known_fixed),
        'trusted_base': vlib.TRUSTED + ['Spec/Indicators.lean: my transcription of the doc comments (readings listed in Spec/Formulas.lean)',
                                        'formula evaluated in binary64 by the Lean driver; comparison tolerance 1e-9 relative + 1e-10 of the input scale; non-finite positions exempt'],
    })
    res.assumptions = ['floating-point rounding is not modelled by the theorems (stated over the reals); it is bounded by the tolerance comparison',
                       'positions where the documented formula is non-finite (zero denominator) are exempt, as the property allows; a non-finite Go value where the formula is defined is a deviation']
    return res.finish()


def check_c02(res, tier, replay):
    rng = random.Random(vlib.seed() + 2)
    vlib.apply_obligations(res, 'C02')
    findings = load_findings('C02')
    cases = replay_cases(replay) if replay else gen_cases(rng, tier)
    if not replay:
        # dense sweep of short lengths: n in [0, 2w+2]
        hi = 6 if tier == 'quick' else 12
        for name in CAT:
            kinds, cfg, (dns, dfs) = CAT[name]
            for rep in range(2 if tier == 'quick' else 6):
                ns, fs = cfg(rng, hi)
                w = idle_of(name, list(ns))
                for n in range(0, 2 * w + 3):
                    if tier == 'quick' and n > w + 2 and n % 3:
                        continue
                    ins, regime, _ = make_inputs(rng, name, n)
                    cases.append((name, list(ns), list(fs), ins, regime))
    lines, go, model = run_both(cases)
    mism = correspondence(res, cases, lines, go, model, 'C02')
    cells = set()
    bad_cases = 0
    known_seen = collections.defaultdict(int)
    short = 0
    for i, c in enumerate(cases):
        cid = lines[i].split(' ')[0]
        g, m = parse_ind(go.get(cid, 'missing')), parse_ind(model.get(cid, 'missing'))
        name = c[0]
        n = len(c[3][0]) if c[3] else 0
        if g['status'] != 'ok':
            bad_cases += 1
            res.violation({'case': case_json(c), 'go_output': go.get(cid, 'missing')[:300],
                           'oracle': 'the pipeline must terminate and emit n - idle values', 'n': n})
            continue
        if m['status'] != 'ok':
            continue
        reg_idle = int(m['meta']['idle'])
        go_idle = int(g['meta']['idle'])
        w = go_idle if go_idle >= 0 else reg_idle      # the period the type declares (or its formula implies)
        cells.add((name, tuple(c[1]), 'n<=w' if n <= w else ('n<=2w+2' if n <= 2 * w + 2 else 'long')))
        if n <= w:
            short += 1
        problems = []
        if go_idle >= 0 and go_idle != reg_idle:
            problems.append('IdlePeriod() returned %d, the registered expression gives %d' % (go_idle, reg_idle))
        for k, o in enumerate(g['outs']):
            if len(o) != max(0, n - w):
                problems.append('output %d has %d values for n=%d, idle=%d (expected %d)' % (k, len(o), n, w, max(0, n - w)))
        if not problems:
            continue
        if name in findings and all(p.startswith('output %d' % findings[name].get('output', -1)) for p in problems):
            known_seen[name] += 1
            continue
        bad_cases += 1

        def fails(cand):
            l2, g2, m2 = run_both([cand], prefix='s')
            gg = parse_ind(g2.get('s0', 'x'))
            nn = len(cand[3][0]) if cand[3] else 0
            return gg['status'] != 'ok' or any(len(o) != max(0, nn - w) for o in gg['outs'])
        small = shrink_case(c, fails) if n <= 200 else c
        res.violation({'case': case_json(small), 'shrunk_from': n, 'problems': problems, 'declared_idle': w,
                       'oracle': 'every output has exactly max(0, n - idle) values'})
    for comp, f in findings.items():
        if known_seen.get(comp):
            res.known_hit.append(known_line(f) + ' [%d cases]' % known_seen[comp])
    if not replay:
        zi_n, zi_bad = check_int_indicators(res, rng, tier, 'C02')
        bad_cases += zi_bad
        res.coverage['integer_element_type_cases'] = zi_n
    if not replay:
        # the warm-up follows the *current* configuration: an instance re-configured after a first Compute emits what a fresh one does
        from c_runtime import check_reconf
        rc_n, rc_bad = check_reconf(res, rng, tier, ('IND',), 'C02')
        bad_cases += rc_bad
        res.coverage['reconfigured_after_use'] = rc_n
    res.samples = [{'case': lines[i][:200] + '…', 'go': go.get(lines[i].split(' ')[0], '')[:160]} for i in (0, len(lines) // 2)] if lines else []
    res.coverage.update({
        'evaluations': len(cases), 'distinct_nontrivial': len(cells),
        'rule': 'indicator x configuration x length class (n<=w, w<n<=2w+2, longer); dense sweep of every n in [0, 2w+2] '
                'for random admissible configurations plus the C01 case mix; counts on every output vs n - IdlePeriod()',
        'cases_not_longer_than_warmup': short,
        'traces_validated_against_impl': len(cases) - mism, 'go_vs_model_mismatches': mism,
        'violations_found': bad_cases, 'known_findings_seen': dict(known_seen),
        'trusted_base': vlib.TRUSTED,
    })
    res.assumptions = ['multi-input indicators are fed streams of equal length n (unequal lengths: C03)']
    return res.finish()


def check_c04(res, tier, replay):
    rng = random.Random(vlib.seed() + 4)
    vlib.apply_obligations(res, 'C04')
    base = replay_cases(replay) if replay else gen_cases(rng, tier, per=(12 if tier == 'quick' else 150))
    stats = {'evaluations': 0, 'checked': 0, 'mism': 0, 'bad': 0, 'cells': set(), 'samples': []}
    c04_pass(res, rng, tier, base, stats)
    if LAST_MISMATCH_COMPONENTS and not replay:
        # the model no longer describes these components: widen the search for a failing input on the real code
        names = sorted(LAST_MISMATCH_COMPONENTS)
        stats['focused_search'] = names
        c04_pass(res, rng, tier, gen_cases(rng, tier, names=names, per=80), stats, report_corr=False)
    # ---- strategies: the recommendation for snapshot i never depends on later snapshots
    sb, sr = strategy_prefix(res, tier, rng, replay)
    stats['bad'] += sb
    stats['evaluations'] += sr
    stats['strategy_runs'] = sr
    if not replay:
        # … nor on a configuration the instance had earlier: the warm-up and the window follow the current configuration
        from c_runtime import check_reconf
        rc_n, rc_bad = check_reconf(res, rng, tier, ('IND', 'STRAT'), 'C04', modes=('replace', 'inplace'))
        stats['bad'] += rc_bad
        stats['reconfigured_after_use'] = rc_n
    res.samples = stats['samples']
    res.coverage.update({
        'evaluations': stats['evaluations'], 'distinct_nontrivial': len(stats['cells']),
        'rule': 'indicator x configuration x {prefix run, suffix rewrite} x cut position class; each derived run is compared '
                'bit-for-bit with the run on the whole series (no reference implementation involved): the run on the first m '
                'inputs must be exactly the outputs for positions < m (declared idle period gives the position of each output)',
        'relations_checked': stats['checked'], 'traces_validated_against_impl': stats['evaluations'] - stats['mism'],
        'go_vs_model_mismatches': stats['mism'], 'violations_found': stats['bad'],
        'focused_search_components': stats.get('focused_search', []),
        'trusted_base': vlib.TRUSTED,
    })
    res.assumptions = ['indicators only here; strategies are covered by C05/C07 checks using the same relation']
    return res.finish()


def c04_pass(res, rng, tier, base, stats, report_corr=True):
    # Go-vs-Go: prefixes and suffix rewrites of the same series
    derived = []   # (kind, base index, cut m, case)
    for bi, c in enumerate(base):
        n = len(c[3][0]) if c[3] else 0
        if n < 2:
            continue
        w = idle_of(c[0], c[1])
        cuts = {1, n - 1, max(1, w), min(n - 1, w + 1), rng.randrange(1, n)}
        if tier == 'thorough':
            cuts |= {rng.randrange(1, n) for _ in range(4)}
        for mcut in sorted(cuts):
            if not (0 < mcut < n):
                continue
            derived.append(('prefix', bi, mcut, (c[0], c[1], c[2], [s[:mcut] for s in c[3]], c[4])))
            # rewrite the suffix after mcut with fresh (valid) data of the same kind
            ins2, _, _ = make_inputs(rng, c[0], n)
            mixed = [s[:mcut] + t[mcut:] for s, t in zip(c[3], ins2)]
            if CAT[c[0]][0] in ('xn',):   # keep the abscissa
                mixed[0] = c[3][0]
            derived.append(('suffix', bi, mcut, (c[0], c[1], c[2], mixed, c[4])))
    allcases = base + [d[3] for d in derived]
    lines, go, model = run_both(allcases)
    if report_corr:
        mism = correspondence(res, allcases, lines, go, model, 'C04')
    else:
        mism = 0
    bad = 0
    cells = stats['cells']
    checked = 0
    for di, (kind, bi, mcut, c) in enumerate(derived):
        gfull = parse_ind(go.get(lines[bi].split(' ')[0], 'missing'))
        gder = parse_ind(go.get(lines[len(base) + di].split(' ')[0], 'missing'))
        if gfull['status'] != 'ok' or gder['status'] != 'ok':
            continue
        name = c[0]
        n = len(base[bi][3][0])
        problem = None
        gi = int(gfull['meta'].get('idle', -1))
        w = gi if gi >= 0 else idle_of(name, c[1])       # declared warm-up: output k is the value for position k + w
        known_len = name in load_findings('C02')           # outputs with a recorded length finding are compared on the common part only
        for k, (of, od) in enumerate(zip(gfull['outs'], gder['outs'])):
            want = min(len(of), max(0, mcut - w))           # outputs that refer to positions < mcut
            exact_len = True
            if known_len and k == load_findings('C02')[name].get('output', -1):
                want = min(want, len(od))
                exact_len = False
            if kind == 'prefix':
                # the run on the first mcut inputs must be exactly the outputs for positions < mcut (Go vs Go, exact): no value
                # missing, none changed, and none in surplus (a value emitted for a position the prefix does not reach yet)
                if len(od) < want or od[:want] != of[:want] or (exact_len and len(od) != want):
                    j = next((j for j in range(min(want, len(od))) if od[j] != of[j]), min(want, len(od)))
                    problem = {'output': k, 'index': j, 'cut': mcut, 'declared_idle': w,
                               'prefix_run_outputs': len(od), 'outputs_for_positions_before_cut': want,
                               'prefix_run': h2f(od[j]) if j < len(od) else None,
                               'full_run': h2f(of[j]) if j < len(of) else None}
                    break
            else:
                # rewriting the inputs from position mcut on must leave the outputs for positions < mcut unchanged
                if od[:want] != of[:want]:
                    j = next((j for j in range(want) if j >= len(od) or od[j] != of[j]), 0)
                    problem = {'output': k, 'index': j, 'cut': mcut, 'declared_idle': w,
                               'after_suffix_rewrite': h2f(od[j]) if j < len(od) else None, 'before': h2f(of[j])}
                    break
        checked += 1
        cells.add((name, tuple(c[1]), kind, 'cut<=w' if mcut <= idle_of(name, c[1]) else 'cut>w'))
        if problem:
            bad += 1
            res.violation({'case': case_json(base[bi]), 'derived_case': case_json(c), 'kind': kind,
                           'first_difference': problem,
                           'oracle': 'run on a prefix = prefix of the run; later inputs never change earlier outputs (Go vs Go, bit-exact)'})
    stats['evaluations'] += len(allcases)
    stats['checked'] += checked
    stats['mism'] += mism
    stats['bad'] += bad
    stats['samples'] += [{'kind': d[0], 'cut': d[2], 'name': d[3][0], 'ns': d[3][1], 'n': len(base[d[1]][3][0])} for d in derived[:3]]


# constructors the harness does not otherwise call: (catalog name, configuration they are documented to produce)
ALT_CTORS = {
    'NewAtr': ('Atr', None), 'NewAtrWithPeriod7': ('Atr', ([0, 7], [])), 'NewBollingerBands': ('BollingerBands', None), 'NewCci': ('Cci', None),
    'NewCmf': ('Cmf', None), 'NewDonchianChannel': ('DonchianChannel', None), 'NewEma': ('Ema', None), 'NewEmv': ('Emv', None),
    'NewEnvelopeWithEma': ('Envelope', ([1, 20], [20.0])), 'NewEnvelopeWithSma': ('Envelope', ([0, 20], [20.0])), 'NewFi': ('Fi', None),
    'NewKama': ('Kama', None), 'NewMacd': ('Macd', None),
    # NewMovingMax() / NewMovingMin() leave Period at 0 (to be set by the caller): not an admissible configuration, not compared
    'NewMovingStd': ('MovingStd', ([1], [])), 'NewMovingSum': ('MovingSum', ([1], [])), 'NewPercentB': ('PercentB', None), 'NewPo': ('Po', None),
    'NewRma': ('Rma', None), 'NewRsi': ('Rsi', None), 'NewSma': ('Sma', None), 'NewSmma': ('Smma', None), 'NewStochasticRsi': ('StochasticRsi', None),
    'NewSuperTrend': ('SuperTrend', None), 'NewSuperTrendWithPeriod': ('SuperTrend', ([5, 6], [1.5])), 'NewTsi': ('Tsi', None), 'NewVwap': ('Vwap', None),
}


def check_alt_constructors(res, rng, tier):
    """default constructors and convenience variants give the documented default configuration (whose behaviour the rest of the
    check establishes).  Returns (cases, bad)."""
    from c_runtime import sched_line, parse_sched
    lines, meta = [], []
    for rep in range(1 if tier == 'quick' else 4):
        for cid, (name, cfg) in ALT_CTORS.items():
            ns, fs = cfg if cfg is not None else CAT[name][2]
            streams_, _, _ = make_inputs(rng, name, rng.randrange(90, 160))
            k = len(meta)
            lines.append('a%d CTORALT %s %s' % (k, cid, streams(streams_)))
            lines.append('b%d %s' % (k, sched_line('IND', name, list(ns), list(fs), streams_, 0, 0)))
            meta.append((cid, name, list(ns), list(fs)))
    go = vlib.run_go(lines)
    bad = 0
    for k, (cid, name, ns, fs) in enumerate(meta):
        a = go.get('a%d' % k, 'missing')
        b = parse_sched(go.get('b%d' % k, 'missing'))
        if not a.startswith('ok ') or b['status'] != 'ok' or a[3:].strip() != (b['outs'] or '').strip():
            bad += 1
            if bad <= 6:
                res.violation({'lines': [lines[2 * k].split(' ', 1)[1]], 'constructor': cid, 'documented_configuration': {'name': name, 'ns': ns, 'fs': fs},
                               'problem': 'the value returned by %s does not behave like %s configured with %s %s: %s vs %s' % (
                                   cid, name, ns, fs, a[:120], (b['outs'] or b['status'])[:120])})
    return len(meta), bad


# =====================================================================================  integer element types
INT_SAFE = {   # indicators whose formula needs at most one final division by a constant: name -> (inputs, has period)
    'Sma': (1, True), 'MovingSum': (1, True), 'MovingMax': (1, True), 'MovingMin': (1, True), 'DonchianChannel': (1, True),
    'TypicalPrice': (3, False), 'WeightedClose': (3, False), 'Qstick': (2, True),
}


def tdiv(a, b):
    q = abs(a) // abs(b)
    return q if (a >= 0) == (b >= 0) else -q


def int_formula(name, p, ins):
    """documented formula on integers: exact arithmetic, one truncating division at the end"""
    x = ins[0]
    n = min(len(s) for s in ins)
    win = lambda s, i: s[i - p + 1:i + 1]
    if name == 'Sma':
        return [[tdiv(sum(win(x, i)), p) for i in range(p - 1, n)]]
    if name == 'MovingSum':
        return [[sum(win(x, i)) for i in range(p - 1, n)]]
    if name == 'MovingMax':
        return [[max(win(x, i)) for i in range(p - 1, n)]]
    if name == 'MovingMin':
        return [[min(win(x, i)) for i in range(p - 1, n)]]
    if name == 'DonchianChannel':
        u = [max(win(x, i)) for i in range(p - 1, n)]
        l = [min(win(x, i)) for i in range(p - 1, n)]
        return [u, [tdiv(a + b, 2) for a, b in zip(u, l)], l]
    if name == 'TypicalPrice':
        return [[tdiv(ins[0][i] + ins[1][i] + ins[2][i], 3) for i in range(n)]]
    if name == 'WeightedClose':
        return [[tdiv(ins[0][i] + ins[1][i] + 2 * ins[2][i], 4) for i in range(n)]]
    if name == 'Qstick':
        d = [ins[1][i] - ins[0][i] for i in range(n)]
        return [[tdiv(sum(win(d, i)), p) for i in range(p - 1, n)]]
    raise KeyError(name)


def check_int_indicators(res, rng, tier, prop):
    """the library is generic over helper.Number: the integer instantiation of the integer-safe indicators against the
    Lean model evaluated at Int (truncating division) and against the documented formula in exact arithmetic.
    Returns (cases, bad)."""
    cases = []
    for name, (k, has_p) in INT_SAFE.items():
        for j in range(6 if tier == 'quick' else 60):
            p = rng.choice([1, 2, 3, 4, 5, 7, 10]) if has_p else 0
            n = rng.choice([0, 1, p, p + 1, rng.randrange(0, 3 * p + 25)]) if j % 6 in (0, 5) else rng.randrange(p + 1, 3 * p + 25)
            kind = ['small', 'odd', 'flat', 'signed', 'big', 'small'][j % 6]
            def val():
                if kind == 'small':
                    return rng.randrange(1, 200)
                if kind == 'odd':
                    return 2 * rng.randrange(1, 100) + 1
                if kind == 'signed':
                    return rng.randrange(-300, 300)
                if kind == 'big':
                    return 2 ** 53 + rng.randrange(1, 1000)      # not representable in float64
                return 101
            if k == 3:      # low <= close <= high
                h, l, c = [], [], []
                for _ in range(n):
                    a, b, d = sorted(val() for _ in range(3))
                    l.append(a); c.append(b); h.append(d)
                ins = [h, l, c]
            else:
                ins = [[val() for _ in range(n)] for _ in range(k)]
            cases.append((name, [p] if has_p else [], ins, kind))
    fmt = lambda ins: ';'.join(','.join(str(v) for v in s) if s else '-' for s in ins)
    gl = ['z%d INDI %s %s %s' % (i, c[0], il(c[1]), fmt(c[2])) for i, c in enumerate(cases)]
    ml = ['z%d INDZ %s %s %s' % (i, c[0], il(c[1]), fmt(c[2])) for i, c in enumerate(cases)]
    go, model = vlib.run_go(gl), vlib.run_model(ml)
    bad = 0
    def parse(t):
        if not t.startswith('ok idle='):
            return None, None
        head, body = t.split(' | ')
        return int(head.split('=')[1]), [[] if s == '-' else [int(v) for v in s.split(',')] for s in body.split(';')]
    for i, c in enumerate(cases):
        gi, g = parse(go.get('z%d' % i, 'missing'))
        mi, m = parse(model.get('z%d' % i, 'missing'))
        name, ns, ins, kind = c
        p = ns[0] if ns else 1
        n = min(len(s) for s in ins)
        problem = None
        if g is None:
            problem = 'integer instantiation did not run: ' + go.get('z%d' % i, 'missing')[:200]
        elif m is None:
            res.violation({'broken': 'correspondence', 'name': 'INDZ ' + name, 'lines': [ml[i].split(' ', 1)[1]], 'model_output': model.get('z%d' % i, 'missing')[:200]}, True)
            bad += 1
            continue
        else:
            want = int_formula(name, p, ins) if n >= p else [[] for _ in g]
            if prop == 'C02':
                w = gi if gi >= 0 else mi
                if any(len(o) != max(0, n - w) for o in g):
                    problem = 'integer instantiation emits %s values for n=%d, idle=%d' % ([len(o) for o in g], n, w)
            elif prop == 'C15':
                if name == 'DonchianChannel' and any(not (a >= b >= d) for a, b, d in zip(*g)):
                    j = next(j for j, (a, b, d) in enumerate(zip(*g)) if not (a >= b >= d))
                    problem = 'integer Donchian bands out of order at %d: upper=%d middle=%d lower=%d' % (j, g[0][j], g[1][j], g[2][j])
                if name in ('MovingMax', 'MovingMin') and g != want:
                    problem = 'integer %s is not the window extreme: go=%s expected=%s' % (name, g[0][:8], want[0][:8])
            else:
                if g != want:
                    o = next(o for o in range(len(want)) if o >= len(g) or g[o] != want[o])
                    problem = 'integer instantiation differs from the documented formula (exact arithmetic, truncated): output %d go=%s expected=%s' % (
                        o, (g[o] if o < len(g) else None) and g[o][:8], want[o][:8])
            if problem is None and g != m:
                res.violation({'broken': 'correspondence', 'name': 'INDI/INDZ ' + name, 'lines': [gl[i].split(' ', 1)[1]],
                               'go_output': str(g)[:300], 'model_output': str(m)[:300]}, True)
                bad += 1
                continue
        if problem:
            bad += 1
            if bad <= 8:
                res.violation({'lines': [gl[i].split(' ', 1)[1]], 'problem': problem, 'int_case': {'name': name, 'ns': ns, 'inputs': ins, 'kind': kind},
                               'oracle': 'integer element type: documented formula in exact arithmetic with one truncating division = Lean model at Int'})
    return len(cases), bad


# =====================================================================================  C15
RANGE = {   # indicator -> list of (output index, lo, hi)
    'Rsi': [(0, 0, 100)], 'Mfi': [(0, 0, 100)], 'StochasticOscillator': [(0, 0, 100), (1, 0, 100)],
    'Aroon': [(0, 0, 100), (1, 0, 100)], 'WilliamsR': [(0, -100, 0)], 'StochasticRsi': [(0, 0, 1)], 'StochasticRsiG': [(0, 0, 1)],
    'Mfm': [(0, -1, 1)], 'Cmf': [(0, -1, 1)], 'Bop': [(0, -1, 1)],
    'MovingStd': [(0, 0, None)], 'Atr': [(0, 0, None)], 'UlcerIndex': [(0, 0, None)], 'BollingerBandWidth': [(0, 0, None)],
}
BANDS = {'BollingerBands': (0, 1, 2), 'KeltnerChannel': (0, 1, 2), 'KeltnerChannelG': (0, 1, 2), 'DonchianChannel': (0, 1, 2),
         'AccelerationBands': (0, 1, 2), 'Envelope': (0, 1, 2)}


def leq(a, b, scale):
    """a <= b up to rounding; None when undefined"""
    if a != a or b != b or abs(a) == math.inf or abs(b) == math.inf:
        return None
    return a <= b + 1e-9 * max(abs(a), abs(b), scale * 1e-3)


# indicators whose defining formula has a data-dependent denominator: a non-finite value there is exempt.
# For all the others (std, ATR, bands, moving min/max, Aroon …) a NaN/Inf IS a violation: nothing divides by data.
# indicators whose code is a recorded deviation from the documented formula (C01 findings): the formula says nothing about them here
C01_DEVIATING = {'Aroon', 'UlcerIndex'}
NAN_OK = {'Rsi', 'Mfi', 'StochasticOscillator', 'WilliamsR', 'StochasticRsi', 'StochasticRsiG', 'Mfm', 'Cmf', 'Bop', 'BollingerBandWidth',
          'UlcerIndex'}


def c15_cases(rng, tier, names, per):
    cases = []
    for name in names:
        for j in range(per):
            kinds, cfg, (dns, dfs) = CAT[name]
            ns, fs = (list(dns), list(dfs)) if j == 0 else cfg(rng, 12 if tier == 'quick' else 40)
            ns, fs = list(ns), list(fs)
            w = idle_of(name, ns)
            n = rng.choice([w + 1, w + 2, 2 * w + 2, rng.randrange(w, w + 80)])
            regime = REGIMES[j % len(REGIMES)] if j % 12 != 11 else 'micro'
            ins, regime, ohlcv = make_inputs(rng, name, n, regime)
            if name in ('MovingMax', 'MovingMin', 'MovingStd') and j % 3 == 1:
                # the volume column of a valid OHLCV series: non-negative, with non-traded bars (zeros)
                from catalog import gen_ohlcv
                sv, regime = gen_ohlcv(rng, n, regime if regime in REGIMES else None)
                vol = [0.0 if rng.random() < 0.15 else v for v in sv['v']]
                ins, regime = [vol], regime + '+volume'
            cases.append((name, ns, fs, ins, regime))
        # long streams (see gen_cases)
        kinds, cfg, (dns, dfs) = CAT[name]
        for n in ([rng.choice([1100, 1300, 2100])] if tier == 'quick' else [1100, 2100, 4200, 9000]):
            ns, fs = (list(dns), list(dfs)) if n % 2 else cfg(rng, 8)
            ins, regime, ohlcv = make_inputs(rng, name, n, rng.choice(['walk', 'wide', 'zigzag']))
            cases.append((name, list(ns), list(fs), ins, regime + '+long'))
    return cases


def spec_value(m, k, j):
    """value of the documented formula (driver, Float) for the position of element j of output k; None if not available"""
    try:
        if m['status'] != 'ok' or m['spec'] is None:
            return None
        idle = int(m['meta']['idle'])
        starts = [int(x) for x in m['meta'].get('starts', '').split(',') if x not in ('', '-')]
        st = starts[k] if k < len(starts) else idle
        sj = idle + j - st
        if sj < 0 or k >= len(m['spec']) or sj >= len(m['spec'][k]):
            return None
        return h2f(m['spec'][k][sj])
    except (KeyError, ValueError, IndexError):
        return None


def c15_eval(res, cases, lines, go, findings, stats, model=None):
    for i, c in enumerate(cases):
        cid = lines[i].split(' ')[0]
        g = parse_ind(go.get(cid, 'missing'))
        m = parse_ind(model.get(cid, 'missing')) if model else None
        name = c[0]
        if g['status'] != 'ok':
            stats['not_ok'] += 1
            continue
        scale = max([1.0] + [abs(v) for s in c[3] for v in s])
        outs = [[h2f(v) for v in s] for s in g['outs']]
        problem = None
        nan_ok = name in NAN_OK

        def undefined(v):
            return v != v or abs(v) == math.inf

        for (k, lo, hi) in RANGE.get(name, []):
            for j, v in enumerate(outs[k]):
                if undefined(v):
                    sv = spec_value(m, k, j) if m else None
                    if nan_ok and sv is not None and not undefined(sv) and name not in C01_DEVIATING:
                        # the exemption is for positions where the defining denominator is zero, i.e. where the documented formula
                        # itself is undefined; here the formula has a value (inside the documented range or not) and the code has none
                        stats['nonfinite_where_defined'] += 1
                        if problem is None:
                            problem = {'output': k, 'index': j, 'value': repr(v), 'formula': sv, 'kind': 'nonfinite-where-defined',
                                       'note': 'non-finite value at a position where the documented formula is defined'}
                    elif nan_ok:
                        stats['exempt'] += 1
                    elif problem is None:
                        problem = {'output': k, 'index': j, 'value': repr(v), 'note': 'non-finite value although the formula divides by no data'}
                    continue
                stats['checked'] += 1
                # "up to rounding": relative to the width of the documented range (a percentage computed as
                # 100 - 100/(1 + ratio) carries a rounding error of a few ulps of 100, not of its own tiny value);
                # non-negative quantities without an upper bound are judged relative to the data scale
                rs = 1e3 * (max(abs(lo or 0.0), abs(hi or 0.0)) if (lo is not None and hi is not None) else scale)
                r1 = leq(lo, v, rs) if lo is not None else True
                r2 = leq(v, hi, rs) if hi is not None else True
                if not (r1 and r2) and problem is None:
                    sv = spec_value(m, k, j) if (m and nan_ok and name not in C01_DEVIATING) else None
                    if sv is not None and undefined(sv):
                        # the documented formula is undefined here (zero defining denominator, e.g. no money flow at all in the
                        # window): whatever the running sums left over in their last bits is exempt
                        stats['exempt'] += 1
                        continue
                    problem = {'output': k, 'index': j, 'value': v, 'range': [lo, hi]}
        if name in BANDS:
            u, mdl, l = BANDS[name]
            for j in range(min(len(outs[u]), len(outs[mdl]), len(outs[l]))):
                vals = (outs[u][j], outs[mdl][j], outs[l][j])
                if any(undefined(v) for v in vals):
                    if problem is None:
                        problem = {'index': j, 'upper': repr(vals[0]), 'middle': repr(vals[1]), 'lower': repr(vals[2]),
                                   'note': 'non-finite band value'}
                    continue
                stats['checked'] += 1
                if not (leq(vals[1], vals[0], scale) and leq(vals[2], vals[1], scale)) and problem is None:
                    problem = {'index': j, 'upper': vals[0], 'middle': vals[1], 'lower': vals[2]}
        if name in ('MovingMax', 'MovingMin'):
            p = c[1][0]
            for j, v in enumerate(outs[0]):
                if j + p - 1 >= len(c[3][0]):
                    continue
                x = c[3][0][j + p - 1]
                win = c[3][0][j:j + p]
                ok = (not undefined(v)) and (leq(x, v, scale) if name == 'MovingMax' else leq(v, x, scale)) and (v in win)
                stats['checked'] += 1
                if not ok and problem is None:
                    problem = {'index': j, 'extreme': v, 'value': x, 'window': win}
        n = len(c[3][0]) if c[3] else 0
        stats['cells'].add((name, tuple(c[1]), c[4], min(n // 10, 10)))
        if problem:
            f = findings.get(name) or (findings.get('Atr') if name == 'KeltnerChannelG' else None)   # same ATR: a Hull ATR may be negative
            cond = (f or {}).get('condition', {})
            if f and cond.get('kind') and cond.get('kind') != problem.get('kind'):
                f = None        # the recorded finding is about another kind of failure
            if f and ('ns0' not in cond or (c[1] and c[1][0] == cond['ns0'])) and cid not in MISMATCH_IDS:
                stats['known'][name] += 1
                continue
            stats['bad'] += 1
            res.violation({'case': case_json(c), 'first_difference': problem,
                           'oracle': 'documented range / band ordering evaluated directly on the Go output'})


def check_c15(res, tier, replay):
    rng = random.Random(vlib.seed() + 15)
    vlib.apply_obligations(res, 'C15')
    findings = load_findings('C15')
    names = list(RANGE) + list(BANDS) + ['MovingMax', 'MovingMin']
    per = 24 if tier == 'quick' else 500
    cases = replay_cases(replay) if replay else [w for w, _ in witness_cases('C15')] + c15_cases(rng, tier, names, per)
    stats = {'checked': 0, 'exempt': 0, 'bad': 0, 'not_ok': 0, 'nonfinite_where_defined': 0, 'cells': set(), 'known': collections.defaultdict(int)}
    lines, go, model = run_both(cases, spec=True, long_spec=set(names) - {'StochasticRsi', 'StochasticRsiG'})
    mism = correspondence(res, cases, lines, go, model, 'C15')
    c15_eval(res, cases, lines, go, findings, stats, model)
    total = len(cases)
    focused = []
    if LAST_MISMATCH_COMPONENTS and not replay:
        focused = sorted(n for n in LAST_MISMATCH_COMPONENTS if n in names)
        if focused:
            extra = c15_cases(rng, tier, focused, 120)
            l2 = ['x%d %s' % (i, ind_line(*c[:4])) for i, c in enumerate(extra)]
            c15_eval(res, extra, l2, vlib.run_go(l2), findings, stats)
            total += len(extra)
    for comp, f in findings.items():
        if stats['known'].get(comp):
            res.known_hit.append(known_line(f) + ' [%d cases]' % stats['known'][comp])
    if not replay:
        zi_n, zi_bad = check_int_indicators(res, rng, tier, 'C15')
        stats['bad'] += zi_bad
        res.coverage['integer_element_type_cases'] = zi_n
    if not replay:
        # the ranges hold however the value was put together: a struct literal filled in field by field (or a re-configured
        # instance) must emit what the constructor-built instance of that configuration emits, whose values were judged above
        from c_runtime import check_reconf
        rc_n, rc_bad = check_reconf(res, rng, tier, ('IND',), 'C15', names=set(RANGE) | set(BANDS) | {'MovingMax', 'MovingMin'})
        stats['bad'] += rc_bad
        res.coverage['literal_and_reconfigured_instances'] = rc_n
    res.samples = [{'case': lines[i][:200] + '…'} for i in (0, len(lines) // 2)] if lines else []
    res.coverage.update({
        'evaluations': total, 'distinct_nontrivial': len(stats['cells']),
        'rule': 'bounded/banded indicator x configuration x regime x length-decile on valid OHLCV (low<=open,close<=high, positive, '
                'volume>=0, moving min/max/std also on the volume column with non-traded bars); every emitted value is tested '
                'against its range / ordering; a non-finite value is exempt only where the formula divides by data',
        'values_checked': stats['checked'], 'exempt_values': stats['exempt'], 'violations_found': stats['bad'],
        'go_runs_not_ok': stats['not_ok'], 'focused_search_components': focused,
        'traces_validated_against_impl': len(cases) - mism, 'go_vs_model_mismatches': mism,
        'known_findings_seen': dict(stats['known']), 'trusted_base': vlib.TRUSTED,
    })
    res.assumptions = ['ranges are checked up to 1e-9 relative rounding slack']
    return res.finish()


# =====================================================================================  C18
# degree of homogeneity of each output in (price, volume); None = not homogeneous by documented formula
DEG = {
    'Apo': [(1, 0)], 'Aroon': [(0, 0), (0, 0)], 'Bop': [(0, 0)], 'Cci': [(0, 0)], 'Dema': [(1, 0)], 'Ema': [(1, 0)],
    'Envelope': [(1, 0)] * 3, 'Hma': [(1, 0)], 'Kama': [(1, 0)], 'Kdj': [(0, 0)] * 3, 'Macd': [(1, 0)] * 2,
    'MassIndex': [(0, 0)], 'Mlr': [(1, 0)], 'Mls': [(1, 0), (1, 0)], 'MovingMax': [(1, 0)], 'MovingMin': [(1, 0)],
    'MovingSum': [(1, 0)], 'Rma': [(1, 0)], 'Sma': [(1, 0)], 'Smma': [(1, 0)], 'Tema': [(1, 0)], 'Trima': [(1, 0)],
    'Trix': [(0, 0)], 'Tsi': [(0, 0)], 'TypicalPrice': [(1, 0)], 'Vwma': [(1, 0)], 'WeightedClose': [(1, 0)], 'Wma': [(1, 0)],
    'AwesomeOscillator': [(1, 0)], 'ChaikinOscillator': [(0, 1), (0, 1)], 'IchimokuCloud': [(1, 0)] * 5,
    'Ppo': [(0, 0)] * 3, 'Pvo': [(0, 0)] * 3, 'Qstick': [(1, 0)], 'Rsi': [(0, 0)], 'StochasticOscillator': [(0, 0)] * 2,
    'StochasticRsi': [(0, 0)], 'WilliamsR': [(0, 0)], 'AccelerationBands': [(1, 0)] * 3, 'Atr': [(1, 0)],
    'BollingerBandWidth': [(0, 0)], 'BollingerBands': [(1, 0)] * 3, 'ChandelierExit': [(1, 0)] * 2,
    'DonchianChannel': [(1, 0)] * 3, 'KeltnerChannel': [(1, 0)] * 3, 'MovingStd': [(1, 0)], 'PercentB': [(0, 0)],
    'Po': [(0, 0)], 'SuperTrend': [(1, 0)], 'UlcerIndex': [(0, 0)], 'Ad': [(0, 1)], 'Cmf': [(0, 0)], 'Emv': [(2, -1)],
    'Fi': [(1, 1)], 'Mfi': [(0, 0)], 'Mfm': [(0, 0)], 'Mfv': [(0, 1)], 'Nvi': [(0, 0)], 'Obv': [(0, 1)], 'Vpt': [(0, 1)],
    'Vwap': [(1, 0)], 'KeltnerChannelG': [(1, 0)] * 3, 'StochasticRsiG': [(0, 0)],
}
assert set(DEG) == set(CAT)


def scale_inputs(name, ins, cp, cv):
    out = []
    for k, s in zip(CAT[name][0], ins):
        if k == 'v':
            out.append([v * cv for v in s])
        elif k == 'x':
            out.append(list(s))
        else:
            out.append([v * cp for v in s])
    return out


def check_c18(res, tier, replay):
    rng = random.Random(vlib.seed() + 18)
    vlib.apply_obligations(res, 'C18')
    findings = load_findings('C18')
    base = replay_cases(replay) if replay else [w for w, _ in witness_cases('C18')] + gen_cases(rng, tier, per=(8 if tier == 'quick' else 150))
    if not replay:
        # series with missing quotes recorded as 0: divisions by zero must give the same Inf / NaN in every unit
        for name in CAT:
            if set(CAT[name][0]) <= set('nx'):
                continue
            for _ in range(2 if tier == 'quick' else 12):
                ns, fs = CAT[name][1](rng, 6)
                ins, regime, _ = make_inputs(rng, name, idle_of(name, list(ns)) + rng.randrange(6, 40), 'zeroquote')
                base.append((name, list(ns), list(fs), ins, regime))
    derived = []
    wfactors = {} if replay else {i: (f['witness'].get('price_factor', 2.0), f['witness'].get('volume_factor', 1.0))
                                   for i, (w, f) in enumerate(witness_cases('C18'))}
    for bi, c in enumerate(base):
        if not c[3] or len(c[3][0]) == 0:
            continue
        kinds = CAT[c[0]][0]
        if bi in wfactors:
            cp, cv = wfactors[bi]
            derived.append((bi, cp, cv, (c[0], c[1], c[2], scale_inputs(c[0], c[3], cp, cv), c[4])))
            continue
        # exponents from small to extreme: absolute thresholds hidden in the code show up far from scale 1
        pe = lambda: rng.choice([-24, -20, -17, -10, -3, -1, 1, 2, 5, 12, 20])
        ve = lambda: rng.choice([-30, -24, -20, -10, -4, -1, 1, 3, 10, 20])
        choices = [(2.0 ** pe(), 1.0), (2.0 ** pe(), 1.0)]
        if 'v' in kinds:
            choices.append((1.0, 2.0 ** ve()))
            choices.append((1.0, 2.0 ** ve()))
            choices.append((2.0 ** pe(), 2.0 ** ve()))
        if kinds == 'v':   # Pvo: the only input is a volume
            choices = [(1.0, 2.0 ** ve()), (1.0, 2.0 ** ve())]
        for cp, cv in choices:
            derived.append((bi, cp, cv, (c[0], c[1], c[2], scale_inputs(c[0], c[3], cp, cv), c[4])))
    allcases = base + [d[3] for d in derived]
    lines, go, model = run_both(allcases)
    mism = correspondence(res, allcases, lines, go, model, 'C18')
    if LAST_MISMATCH_COMPONENTS and not replay:
        # the model no longer describes these components: widen the search for a failing input on the real code
        nb = len(base)
        extra_base = gen_cases(rng, tier, names=sorted(LAST_MISMATCH_COMPONENTS), per=60)
        extra = []
        for c in extra_base:
            if not c[3] or len(c[3][0]) == 0:
                continue
            for cp, cv in [(2.0 ** -24, 1.0), (2.0 ** -17, 1.0), (2.0 ** 20, 1.0), (1.0, 2.0 ** -30), (1.0, 2.0 ** 20)]:
                if CAT[c[0]][0] == 'v' and cv == 1.0:
                    continue
                if 'v' not in CAT[c[0]][0] and cp == 1.0:
                    continue
                extra.append((c, cp, cv, (c[0], c[1], c[2], scale_inputs(c[0], c[3], cp, cv), c[4])))
        l2 = ['e%d %s' % (i, ind_line(*cc[:4])) for i, cc in enumerate([e[0] for e in extra] + [e[3] for e in extra])]
        go2 = vlib.run_go(l2)
        off = len(extra)
        for i, (c0, cp, cv, c1) in enumerate(extra):
            base.append(c0)
            lines.append('x%d' % i)          # placeholder ids resolved through go below
            go['x%d' % i] = go2.get('e%d' % i, 'missing')
        lines_d = []
        for i, (c0, cp, cv, c1) in enumerate(extra):
            derived.append((nb + i, cp, cv, c1))
        # rebuild the combined index: base lines first, then derived lines
        base_lines = [lines[k] for k in range(nb)] + ['x%d' % i for i in range(len(extra))]
        der_lines = lines[nb:nb + (len(derived) - len(extra))] + ['y%d' % i for i in range(len(extra))]
        for i in range(len(extra)):
            go['y%d' % i] = go2.get('e%d' % (off + i), 'missing')
        lines = base_lines + der_lines
    checked = exempt = bad = inexact = 0
    cells = set()
    known_seen = collections.defaultdict(int)
    for di, (bi, cp, cv, c) in enumerate(derived):
        g0 = parse_ind(go.get(lines[bi].split(' ')[0], 'missing'))
        g1 = parse_ind(go.get(lines[len(base) + di].split(' ')[0], 'missing'))
        if g0['status'] != 'ok' or g1['status'] != 'ok':
            continue
        name = c[0]
        problem = None
        for k, (o0, o1) in enumerate(zip(g0['outs'], g1['outs'])):
            dp, dv = DEG[name][k]
            factor = (cp ** dp) * (cv ** dv)
            if len(o0) != len(o1):
                problem = {'output': k, 'lengths': [len(o0), len(o1)]}
                break
            for j, (a, b) in enumerate(zip(o0, o1)):
                x, y = h2f(a) * factor, h2f(b)
                if x != x or y != y or abs(x) == math.inf or abs(y) == math.inf:
                    # undefined positions (0/0, x/0) are exempt as values, but they must be undefined in the same way in both
                    # units: a finite value on one side and Inf/NaN on the other is a dependence on the unit
                    if (x != x) == (y != y) and ((x != x) or x == y or (abs(x) != math.inf and abs(y) != math.inf)):
                        exempt += 1
                        continue
                    if c[4] != 'zeroquote' and base[bi][4] != 'zeroquote':
                        exempt += 1          # overflow / underflow at extreme factors: only judged on the zero-quote series
                        continue
                    problem = {'output': k, 'index': j, 'original': h2f(a), 'expected_scaled': x, 'got': y,
                               'price_factor': cp, 'volume_factor': cv, 'degree': [dp, dv], 'note': 'defined in one unit, undefined in the other'}
                    break
                checked += 1
                if x == y:
                    continue
                if abs(x - y) <= 1e-12 * max(abs(x), abs(y)):
                    inexact += 1
                    continue
                problem = {'output': k, 'index': j, 'original': h2f(a), 'expected_scaled': x, 'got': y,
                           'price_factor': cp, 'volume_factor': cv, 'degree': [dp, dv]}
                break
            if problem:
                break
        cells.add((name, tuple(c[1]), cp != 1.0, cv != 1.0, c[4]))
        if problem:
            ids = {lines[bi].split(' ')[0], lines[len(base) + di].split(' ')[0]}
            if name in findings and not (ids & MISMATCH_IDS):
                known_seen[name] += 1
                continue
            bad += 1
            res.violation({'case': case_json(base[bi]), 'scaled_case': case_json(c), 'first_difference': problem,
                           'oracle': 'output(scaled inputs) = output * price_factor^dp * volume_factor^dv, Go vs Go, power-of-two factors'})
    # ---- strategies: recommendations do not depend on the currency unit or the volume unit
    sbad, sruns, scells = strategy_scaling(res, tier, rng, replay)
    bad += sbad
    for comp, f in findings.items():
        if known_seen.get(comp):
            res.known_hit.append(known_line(f) + ' [%d cases]' % known_seen[comp])
    res.samples = [{'name': d[3][0], 'ns': d[3][1], 'price_factor': d[1], 'volume_factor': d[2]} for d in derived[:3]]
    res.coverage.update({
        'evaluations': len(allcases) + sruns, 'distinct_nontrivial': len(cells) + scells, 'strategy_runs': sruns,
        'rule': 'indicator x configuration x (price scaled?, volume scaled?) x regime; factors are powers of two so the relation is '
                'checked bit-for-bit (differences below 1e-12 relative are counted as inexact, larger ones are violations); '
                'strategy (32 base, 12 compound/decorated incl. Stop-Loss and No-Loss) x configuration x price/volume factor: identical action streams',
        'values_checked': checked, 'exempt_values': exempt, 'inexact_matches': inexact, 'violations_found': bad,
        'traces_validated_against_impl': len(allcases) - mism, 'go_vs_model_mismatches': mism,
        'known_findings_seen': dict(known_seen), 'trusted_base': vlib.TRUSTED,
    })
    res.assumptions = ['IEEE scaling by powers of two is exact absent overflow/underflow (inputs in [1/64, 1e6])',
                       'for strategies only the recommendations are compared (thresholds on oscillators are scale-free by construction)']
    return res.finish()
