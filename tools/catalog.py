"""Catalog of the 61 indicators: input streams, admissible configurations, known properties."""
import random

# inputs: letters o,h,l,c,v from an OHLCV series, or 'n' = plain numeric series, 'x' = 1,2,3…(regression abscissa)
def P(rng, hi):
    return rng.randrange(1, hi + 1)

def two_sorted(rng, hi):
    a, b = P(rng, hi), P(rng, hi)
    return (min(a, b), max(a, b))

def three_sorted(rng, hi):
    return tuple(sorted([P(rng, hi), P(rng, hi), P(rng, hi)]))

MA_KINDS = [0, 1, 3, 4, 5]   # sma ema smma wma hma

CAT = {
    # name: (inputs, cfg(rng, hi) -> (ns, fs), defaults (ns, fs))
    # Apo / Ema: the smoothing constants are public fields (FastSmoothing, SlowSmoothing / Smoothing), default 2
    'Apo': ('n', lambda r, h: (list(two_sorted(r, h)), r.choice([[], [2.0, 2.0], [3.0, 1.0], [1.5, 2.5]])), ([14, 30], [2.0, 2.0])),
    'Aroon': ('hl', lambda r, h: ([P(r, h)], []), ([25], [])),
    'Bop': ('ohlc', lambda r, h: ([], []), ([], [])),
    'Cci': ('hlc', lambda r, h: ([P(r, h)], []), ([20], [])),
    'Dema': ('n', lambda r, h: ([P(r, h), P(r, h)], []), ([20, 20], [])),
    'Ema': ('n', lambda r, h: ([P(r, h)], r.choice([[], [2.0], [1.0], [3.0], [0.5], [2.5]])), ([20], [2.0])),
    'Envelope': ('n', lambda r, h: ([r.choice([0, 1]), P(r, h)], [r.choice([0.0, 5.0, 20.0, 12.5])]), ([0, 20], [20.0])),
    'Hma': ('n', lambda r, h: ([P(r, h)], []), ([9], [])),
    # (the fast and slow smoothing periods coincide in one configuration out of four: the smoothing constant is then fixed)
    'Kama': ('n', lambda r, h: (lambda e, f: ([e, f, f if r.random() < 0.25 else P(r, 30)], []))(P(r, h), P(r, 5)), ([10, 2, 30], [])),
    'Kdj': ('hlc', lambda r, h: ([P(r, h), P(r, 6), P(r, 6)], []), ([9, 3, 3], [])),
    'Macd': ('n', lambda r, h: (lambda a: ([a[0], a[1], P(r, h)], []))(two_sorted(r, h)), ([12, 26, 9], [])),
    'MassIndex': ('hl', lambda r, h: ([P(r, h), P(r, h), P(r, h)], []), ([9, 9, 25], [])),
    'Mlr': ('xn', lambda r, h: ([P(r, h) + 1], []), ([14], [])),
    'Mls': ('xn', lambda r, h: ([P(r, h) + 1], []), ([14], [])),
    'MovingMax': ('n', lambda r, h: ([P(r, h)], []), ([14], [])),
    'MovingMin': ('n', lambda r, h: ([P(r, h)], []), ([14], [])),
    'MovingSum': ('n', lambda r, h: ([P(r, h)], []), ([14], [])),
    'Rma': ('n', lambda r, h: ([P(r, h)], []), ([20], [])),
    'Sma': ('n', lambda r, h: ([P(r, h)], []), ([50], [])),
    'Smma': ('n', lambda r, h: ([P(r, h)], []), ([7], [])),
    'Tema': ('n', lambda r, h: ([P(r, h), P(r, h), P(r, h)], []), ([20, 20, 20], [])),
    'Trima': ('n', lambda r, h: ([P(r, h)], []), ([15], [])),
    'Trix': ('c', lambda r, h: ([P(r, h)], []), ([15], [])),
    'Tsi': ('c', lambda r, h: ([P(r, h), P(r, h)], []), ([25, 13], [])),
    'TypicalPrice': ('hlc', lambda r, h: ([], []), ([], [])),
    'Vwma': ('cv', lambda r, h: ([P(r, h)], []), ([20], [])),
    'WeightedClose': ('hlc', lambda r, h: ([], []), ([], [])),
    'Wma': ('n', lambda r, h: ([P(r, h)], []), ([5], [])),
    'AwesomeOscillator': ('hl', lambda r, h: (list(two_sorted(r, h)), []), ([5, 34], [])),
    'ChaikinOscillator': ('hlcv', lambda r, h: (list(two_sorted(r, h)), []), ([3, 10], [])),
    'IchimokuCloud': ('hlc', lambda r, h: (list(three_sorted(r, h)) + [P(r, h)], []), ([9, 26, 52, 26], [])),
    'Ppo': ('c', lambda r, h: (lambda a: ([a[0], a[1], P(r, h)], []))(two_sorted(r, h)), ([12, 26, 9], [])),
    'Pvo': ('v', lambda r, h: (lambda a: ([a[0], a[1], P(r, h)], []))(two_sorted(r, h)), ([12, 26, 9], [])),
    'Qstick': ('oc', lambda r, h: ([P(r, h)], []), ([20], [])),
    'Rsi': ('c', lambda r, h: ([P(r, h)], []), ([14], [])),
    'StochasticOscillator': ('hlc', lambda r, h: ([P(r, h), P(r, 6)], []), ([14, 3], [])),
    'StochasticRsi': ('c', lambda r, h: ([P(r, h)], []), ([14], [])),
    # StochasticRsi whose public Rsi field has another period than the min/max look-back: [RSI period, look-back]
    'StochasticRsiG': ('c', lambda r, h: ([P(r, h), P(r, h)], []), ([16, 14], [])),
    'WilliamsR': ('hlc', lambda r, h: ([P(r, h)], []), ([14], [])),
    'AccelerationBands': ('hlc', lambda r, h: ([P(r, h)], []), ([20], [])),
    'Atr': ('hlc', lambda r, h: ([r.choice(MA_KINDS), P(r, h)], []), ([0, 14], [])),
    'BollingerBandWidth': ('c', lambda r, h: ([P(r, h)], []), ([20], [])),
    'BollingerBands': ('c', lambda r, h: ([P(r, h)], []), ([20], [])),
    'ChandelierExit': ('hlc', lambda r, h: ([P(r, h)], [r.choice([3.0, 1.0, 2.5, 0.5, 0.0, -1.0])]), ([22], [3.0])),
    'DonchianChannel': ('c', lambda r, h: ([P(r, h)], []), ([20], [])),
    'KeltnerChannel': ('hlc', lambda r, h: ([P(r, h)], []), ([20], [])),
    # KeltnerChannel with its public Atr / Ema fields configured separately: [ATR moving-average kind, ATR period, EMA period <= ATR period]
    'KeltnerChannelG': ('hlc', lambda r, h: (lambda k, ap: ([k, ap, r.randrange(1, ap + 1)], []))(r.choice(MA_KINDS), P(r, h)), ([0, 20, 10], [])),
    'MovingStd': ('n', lambda r, h: ([P(r, h)], []), ([20], [])),
    'PercentB': ('c', lambda r, h: ([P(r, h)], []), ([20], [])),
    'Po': ('hlc', lambda r, h: ([P(r, h) + 1], []), ([14], [])),
    'SuperTrend': ('hlc', lambda r, h: ([r.choice(MA_KINDS), P(r, h)], [r.choice([2.5, 1.0, 3.0, 0.0, 0.5])]), ([5, 14], [2.5])),
    'UlcerIndex': ('c', lambda r, h: ([P(r, h)], []), ([14], [])),
    'Ad': ('hlcv', lambda r, h: ([], []), ([], [])),
    'Cmf': ('hlcv', lambda r, h: ([P(r, h)], []), ([20], [])),
    'Emv': ('hlv', lambda r, h: ([P(r, h)], []), ([14], [])),
    'Fi': ('cv', lambda r, h: ([P(r, h)], []), ([13], [])),
    'Mfi': ('hlcv', lambda r, h: ([P(r, h)], []), ([14], [])),
    'Mfm': ('hlc', lambda r, h: ([], []), ([], [])),
    'Mfv': ('hlcv', lambda r, h: ([], []), ([], [])),
    'Nvi': ('cv', lambda r, h: ([], [r.choice([1000.0, 100.0, 1.0])]), ([], [1000.0])),
    'Obv': ('cv', lambda r, h: ([], []), ([], [])),
    'Vpt': ('cv', lambda r, h: ([], []), ([], [])),
    'Vwap': ('cv', lambda r, h: ([P(r, h)], []), ([14], [])),
}
assert len(CAT) == 63      # the 61 Compute methods + 2 component-wise configurations (…G)

# indicators without an IdlePeriod method: warm-up implied by the formula (as registered in the Lean Registry)
NO_IDLE_METHOD = {'Apo', 'Aroon', 'Bop', 'TypicalPrice'}

# ---------------------------------------------------------------- series
REGIMES = ['walk', 'walk', 'wide', 'flat', 'up', 'down', 'zigzag', 'ties', 'plateau', 'offset', 'outlier', 'wide', 'dips',
           'flatrun', 'penny', 'huge', 'touch', 'flatstart']


def q(x):
    """round to the dyadic grid k/64"""
    return round(x * 64) / 64.0


def gen_ohlcv(rng, n, regime=None):
    regime = regime or rng.choice(REGIMES)
    if regime in ('penny', 'huge', 'micro'):
        # a walk at a very low (fractions of a cent; 'micro': around 1e-8, neighbouring quotes less than 1e-9 apart) or very high
        # (beyond 2^31) price level: exact power-of-two rescaling
        s, _ = gen_ohlcv(rng, n, rng.choice(['walk', 'wide', 'dips']))
        k = 2.0 ** (-15 if regime == 'penny' else (-33 if regime == 'micro' else 24))
        for f in 'ohlc':
            s[f] = [x * k for x in s[f]]
        return s, regime
    if regime == 'flatstart':
        # the series opens with a long stretch of identical bars (a listing that does not trade yet): gains and losses are all zero
        s, _ = gen_ohlcv(rng, n, rng.choice(['walk', 'wide']))
        ln = rng.choice([n, max(1, n // 2), rng.randrange(8, 45)])
        for i in range(0, min(n, ln)):
            for f in 'ohlc':
                s[f][i] = s['c'][0]
        return s, regime
    if regime == 'flatrun':
        # a walk with stretches of identical bars (halted trading); one of them may open the series
        s, _ = gen_ohlcv(rng, n, rng.choice(['walk', 'wide']))
        for _ in range(rng.randrange(1, 3)):
            if n == 0:
                break
            a = 0 if rng.random() < 0.4 else rng.randrange(0, n)
            ln = rng.randrange(4, 24)
            for i in range(a, min(n, a + ln)):
                for f in 'ohlc':
                    s[f][i] = s['c'][a]
        return s, regime
    if regime == 'anyorder':
        # no relation at all between the columns: the high may lie below the low or below the previous close (C01-C04 quantify
        # over every finite series, not only over well-formed bars; C15 and the strategy checks never use this regime)
        s, _ = gen_ohlcv(rng, n, 'walk')
        base = s['c'][0] if n else 10.0
        for f in 'ohl':
            s[f] = [q(max(1 / 64.0, x + rng.uniform(-0.08, 0.08) * base)) for x in s['c']]
        return s, regime
    if regime == 'zeroquote':
        # missing quotes recorded as 0 (whole bar, or only the close / the volume): ratios divide by zero there, and the
        # IEEE results (Inf, NaN) are as unit-independent as any other value (C18 only)
        s, _ = gen_ohlcv(rng, n, rng.choice(['walk', 'wide']))
        for i in range(n):
            r_ = rng.random()
            if r_ < 0.08:
                for f in 'ohlc':
                    s[f][i] = 0.0
            elif r_ < 0.12:
                s['c'][i] = 0.0
            elif r_ < 0.16:
                s['v'][i] = 0.0
        return s, regime
    if regime == 'touch':
        # whole-number prices in a narrow band: closes land exactly on bands, extremes and earlier closes
        base = float(rng.choice([8, 10, 50]))
        o, h, l, c, v = [], [], [], [], []
        prev = base
        for i in range(n):
            cl = max(1.0, prev + rng.choice([-1, -1, 0, 0, 1, 1, 2, -2]))
            op = max(1.0, prev + rng.choice([-1, 0, 0, 1]))
            hi = max(cl, op) + rng.choice([0, 0, 1, 2])
            lo = max(0.5, min(cl, op) - rng.choice([0, 0, 1, 2]))
            o.append(op); h.append(hi); l.append(lo); c.append(cl)
            v.append(float(rng.choice([0, 100, 100, 200, 300])))
            prev = cl
        return {'o': o, 'h': h, 'l': l, 'c': c, 'v': v}, regime
    base = rng.choice([2.0, 10.0, 100.0, 500.0])
    if regime == 'offset':
        base = float(2 ** 27)       # a high price level with a small spread (cancellation-prone formulas show up here)
    close, c = [], base
    spike = rng.randrange(0, max(1, n)) if regime == 'outlier' else -1
    for i in range(n):
        if regime == 'offset':
            c = base + rng.randrange(-200, 200) / 64.0
        elif regime == 'outlier':
            c = max(1.0, c + rng.uniform(-0.03, 0.03) * base)
            if i == spike:
                close.append(float(2 ** 30))
                continue
        elif regime in ('walk', 'wide'):
            c = max(1.0, c + rng.uniform(-0.03, 0.03) * base)
        elif regime == 'flat':
            c = base
        elif regime == 'dips':
            # an up-trend interrupted by sharp pull-backs of a few bars followed by small recoveries
            ph = i % 17
            if ph in (9, 10, 11):
                c = max(1.0, c - rng.choice([2.0, 3.0, 4.0]) * base / 100)
            elif ph in (12, 13, 14, 15):
                c = c + rng.choice([0.05, 0.1, 0.2]) * base / 100
            else:
                c = c + rng.choice([0.5, 1.0, 1.5]) * base / 100
        elif regime == 'up':
            c = c + rng.choice([0.25, 0.5, 1.0]) * base / 100
        elif regime == 'down':
            c = max(1.0, c - rng.choice([0.25, 0.5]) * base / 200)
        elif regime == 'zigzag':
            c = base * (1.05 if i % 2 == 0 else 0.95)
        elif regime == 'ties':
            c = base + rng.choice([0, 0, 1, -1]) * base / 50
        elif regime == 'plateau':
            if rng.random() < 0.15:
                c = max(1.0, c + rng.choice([-1, 1]) * base / 20)
        close.append(q(c))
    o, h, l, v = [], [], [], []
    prev = close[0] if close else base
    for i, c in enumerate(close):
        op = q(prev + (rng.uniform(-0.01, 0.01) * (base if regime != 'offset' else 100.0) if regime not in ('flat',) else 0))
        op = max(1 / 64.0, op)
        spread = 0.0 if regime == 'flat' and rng.random() < 0.7 else rng.choice([0, 1, 2, 5]) * (base if regime != 'offset' else 64.0) / 640
        if regime == 'wide':
            # high, low (and open) vary independently of the close within low <= open, close <= high
            hi = q(max(op, c) + rng.random() * rng.choice([0.0, 0.02, 0.1, 0.3]) * base)
            lo = q(max(1 / 64.0, min(op, c) - rng.random() * rng.choice([0.0, 0.02, 0.1, 0.3]) * base))
        else:
            hi = q(max(op, c) + spread * rng.random())
            lo = q(max(1 / 64.0, min(op, c) - spread * rng.random()))
        hi = max(hi, op, c)
        lo = min(lo, op, c)
        o.append(op); h.append(hi); l.append(lo)
        vol = float(rng.randrange(1, 5000) * 100)
        if regime in ('flat',) and rng.random() < 0.5:
            vol = 100000.0
        if rng.random() < 0.03:
            vol = 0.0
        if v and rng.random() < (0.35 if regime in ('ties', 'plateau') else 0.1):
            vol = v[-1]            # equal consecutive volumes (thin / halted trading): ties in volume comparisons
        v.append(vol)
        prev = c
    if rng.random() < 0.25:
        fr = rng.choice([1 / 64.0, 1 / 1024.0, 0.37])      # fractional units (crypto, fractional shares)
        v = [x * fr for x in v]
    return {'o': o, 'h': h, 'l': l, 'c': close, 'v': v}, regime


def gen_numeric(rng, n, regime=None):
    regime = regime or rng.choice(REGIMES + ['signed', 'zeros'])
    if regime in ('signed', 'zeros'):
        out = []
        for _ in range(n):
            r = rng.random()
            if regime == 'zeros' and r < 0.4:
                out.append(0.0)
            else:
                out.append(q(rng.uniform(-50, 50)))
        return out, regime
    s, reg = gen_ohlcv(rng, n, regime)
    return s['c'], reg


def make_inputs(rng, name, n, regime=None):
    kinds = CAT[name][0]
    if set(kinds) <= set('nx'):
        vals, reg = gen_numeric(rng, n, regime if regime in REGIMES + ['signed', 'zeros'] else None)
        streams = []
        for k in kinds:
            streams.append([float(i + 1) for i in range(n)] if k == 'x' else vals)
        return streams, reg, None
    s, reg = gen_ohlcv(rng, n, regime if regime in REGIMES + ['anyorder', 'zeroquote', 'micro'] else None)
    return [s[k] for k in kinds], reg, s
