"""C10 (repositories), C11 (codecs), C12 (sync), C13 (backtest), C19 (malformed external data)."""
import re, random, json, collections, binascii
import vlib
from c_indicators import load_findings, known_line

NAMES = ['aapl', 'msft', 'brk-b']
REPO_NAMES = ['aapl', 'msft', 'brk-b', 'brk.b', 'A', 'cvs', 'msft.us', 'v']   # tickers with a dot exist (BRK.B)


# ------------------------------------------------------------------------------------------ C10
def gen_repo_history(rng, n, impl='mem'):
    ops = []
    day = {k: rng.randrange(0, 50) for k in REPO_NAMES}
    backfill = rng.random() < 0.4      # histories in which older days are appended after newer ones
    touched = set()
    for _ in range(n):
        r = rng.random()
        name = rng.choice(REPO_NAMES)
        if r < 0.05 and name not in touched:
            ops.append('z:%s' % name)          # the asset exists without content (a zero-byte file put there from outside)
            touched.add(name)
        elif r < 0.12:
            other = rng.choice([x for x in REPO_NAMES if x != name])
            ops.append('c:%s:%s' % (name, other))      # copy inside the repository while the source stream is open
            touched.add(other)
        elif r < 0.40:
            k = rng.choice([0, 1, 1, 2, 3, 5])
            ds = []
            for _ in range(k):
                day[name] += rng.choice([0, 1, 1, 1, 2, 7])      # equal dates occur (GetSince boundary)
                if backfill and rng.random() < 0.25:
                    day[name] = max(0, day[name] - rng.randrange(1, 20))
                ds.append(day[name])
            ops.append('a:%s:%s' % (name, ','.join(map(str, ds))))
            touched.add(name)
        elif r < 0.58:
            ops.append('g:%s' % name)
        elif r < 0.62 and impl in ('fs', 'fsw') and name in touched:
            ops.append('L:%s' % name)          # the asset's file becomes a symbolic link to a file kept elsewhere
        elif r < 0.67 and impl != 'sql':
            # a bound with a time of day (the SQL repository presupposes whole-day bounds)
            ops.append('S:%s:%d' % (name, max(0, day[name] + rng.randrange(-12 if backfill else -6, 3))))
        elif r < 0.75:
            ops.append('s:%s:%d' % (name, max(0, day[name] + rng.randrange(-12 if backfill else -6, 3))))
        elif r < 0.9:
            ops.append('l:%s' % name)
        else:
            ops.append('A')
    if impl == 'mem' and rng.random() < 0.4:
        # two appends to one asset that overlap in time (the in-memory repository is meant to be shared between workers)
        name = rng.choice(REPO_NAMES)
        a = [day[name] + k for k in range(rng.randrange(1, 4))]
        b = [day[name] + 10 + k for k in range(rng.randrange(1, 4))]
        ops.append('P:%s:%s/%s' % (name, ','.join(map(str, a)), ','.join(map(str, b))))
    return ops


def py_repo(ops):
    """the map specification. Returns list of expected observations; for Assets a (must, may) pair"""
    store, serial, out = {}, 0, []
    for op in ops:
        f = op.split(':')
        if f[0] == 'a':
            days = [int(x) for x in f[2].split(',')] if len(f) > 2 and f[2] else []
            lst = store.setdefault(f[1], [])
            for d in days:
                serial += 1
                lst.append((d, serial))
            out.append('ok')
        elif f[0] == 'z':
            store.setdefault(f[1], [])
            out.append('ok')
        elif f[0] == 'c':
            if f[1] not in store:
                out.append('err')
            else:
                store.setdefault(f[2], []).extend(list(store[f[1]]))
                out.append('ok')
        elif f[0] == 'g':
            out.append('err' if f[1] not in store else 'ok:' + ','.join('%d.%d' % x for x in store[f[1]]))
        elif f[0] == 's':
            out.append('err' if f[1] not in store else 'ok:' + ','.join('%d.%d' % x for x in store[f[1]] if x[0] >= int(f[2])))
        elif f[0] == 'S':
            out.append('err' if f[1] not in store else 'ok:' + ','.join('%d.%d' % x for x in store[f[1]] if x[0] > int(f[2])))
        elif f[0] == 'L':
            out.append('ok')
        elif f[0] == 'P':
            lst = store.setdefault(f[1], [])
            for part in f[2].split('/'):
                for d in ([int(x) for x in part.split(',')] if part else []):
                    serial += 1
                    lst.append((d, serial))
            out.append('ok:' + ','.join(sorted('%d.%d' % x for x in lst)))
        elif f[0] == 'l':
            out.append('err' if not store.get(f[1]) else 'ok:%d' % store[f[1]][-1][0])
        elif f[0] == 'A':
            must = sorted(k for k, v in store.items() if v)
            may = sorted(store)
            out.append(('assets', must, may))
    return out


def check_c10(res, tier, replay):
    rng = random.Random(vlib.seed() + 10)
    vlib.apply_obligations(res, 'C10')
    findings = load_findings('C10')
    nh = 60 if tier == 'quick' else 2000
    hl = 40 if tier == 'quick' else 200
    hist = []
    if replay:
        rep = json.load(open(replay))
        hist = [(c['impl'], c['ops']) for c in rep.get('cases', [])]
    else:
        for impl in ('mem', 'fs', 'sql', 'fsw'):     # fsw: the file-system repository in a process whose local zone is west of UTC
            for _ in range(nh if impl != 'fsw' else max(10, nh // 4)):
                hist.append((impl, gen_repo_history(rng, rng.randrange(1, hl), impl)))
    lines = ['r%d REPO %s %s' % (i, impl, ';'.join(ops)) for i, (impl, ops) in enumerate(hist)]

    def for_model(op):
        # the model has whole days only: a bound inside day d selects the days after d
        f = op.split(':')
        if f[0] == 'S':
            return 's:%s:%d' % (f[1], int(f[2]) + 1)
        return op
    go = vlib.run_go(lines)
    # (a file that became a symbolic link is the same asset: the model does not see the operation at all)
    model = vlib.run_model(['r%d REPO %s %s' % (i, impl, ';'.join(for_model(o) for o in ops if o[0] not in 'LP') or 'A') for i, (impl, ops) in enumerate(hist)])
    mism = bad = nobs = 0
    known = collections.Counter()
    cells = set()
    opmix = collections.Counter()
    for i, (impl, ops) in enumerate(hist):
        g, m = go.get('r%d' % i, 'missing'), model.get('r%d' % i, 'missing')
        cells.add((impl, min(len(ops) // 5, 10)))
        gm = g
        if g.startswith('ok ') and any(o[0] in 'LP' for o in ops):
            kept = [x for x, o in zip(g[3:].split(';'), ops) if o[0] not in 'LP']
            gm = 'ok ' + ';'.join(kept) if kept else m
        if gm != m:
            mism += 1
            res.violation({'broken': 'correspondence', 'name': 'REPO ' + impl, 'cases': [{'impl': impl, 'ops': ops}],
                           'go_output': g[:600], 'model_output': m[:600]}, True)
        if not g.startswith('ok '):
            bad += 1
            res.violation({'cases': [{'impl': impl, 'ops': ops}], 'go_output': g[:300], 'oracle': 'the history must complete'})
            continue
        obs = g[3:].split(';')
        exp = py_repo(ops)
        problem = None
        for j, (o, e) in enumerate(zip(obs, exp)):
            nobs += 1
            opmix[ops[j].split(':')[0]] += 1
            if isinstance(e, tuple):
                got = o[3:].split(',') if o.startswith('ok:') and len(o) > 3 else []
                if not (set(e[1]) <= set(got) <= set(e[2])) or got != sorted(got):
                    problem = (j, ops[j], 'assets must contain %s and be within %s' % (e[1], e[2]), o)
                    break
            elif o != e:
                # recorded finding: the SQL repository reads an asset that was never appended as an empty success
                if impl == 'sql' and 'SQLRepository' in findings and e == 'err' and ((o == 'ok:' and ops[j][0] in 'gs') or (o == 'ok' and ops[j][0] == 'c')):
                    known['SQLRepository'] += 1
                    continue
                problem = (j, ops[j], e, o)
                break
        if problem:
            bad += 1
            # shrink: drop operations while the same observation mismatch persists
            res.violation({'cases': [{'impl': impl, 'ops': ops[:problem[0] + 1]}], 'first_difference':
                           {'index': problem[0], 'op': problem[1], 'expected': problem[2], 'go': problem[3]},
                           'oracle': 'map from asset name to the ordered list of snapshots appended so far'})
    for comp, f in findings.items():
        if known.get(comp):
            res.known_hit.append(known_line(f) + ' [%d observations]' % known[comp])
    res.samples = [{'case': lines[i][:200], 'go': go.get('r%d' % i, '')[:200]} for i in (0, len(lines) // 2, len(lines) - 1)]
    res.coverage.update({
        'evaluations': len(hist), 'distinct_nontrivial': len(cells),
        'rule': 'implementation (in-memory, file system in a temp dir, SQL over a conforming fake database/sql driver) x random operation '
                'history over 3 asset names (appends incl. empty ones and equal dates, Get, GetSince around the last dates, LastDate, Assets); '
                'every observation compared Go vs model and Go vs the map specification',
        'observations_compared': nobs, 'operation_mix': dict(opmix), 'violations_found': bad, 'known_findings_seen': dict(known),
        'traces_validated_against_impl': len(hist) - mism, 'go_vs_model_mismatches': mism,
        'trusted_base': vlib.TRUSTED + ['the SQL dialect + driver contract is the fake driver in harness/assets.go (none ships with the module)'],
    })
    res.assumptions = ['whole-day UTC dates from 2000-01-01 on', 'file-system repository at row level here; bytes and headers are C11']
    return res.finish()


# ------------------------------------------------------------------------------------------ C11
def py_csvfile(ops):
    f, nxt, out = None, 0, []     # f: None | (has_header, rows)
    for op in ops:
        p = op.split(':')
        k = int(p[1]) if len(p) > 1 else 0
        rows = list(range(nxt + 1, nxt + k + 1))
        if p[0] == 'w':
            f = (True, rows); nxt += k; out.append('ok')          # writing replaces whatever the file contained
        elif p[0] == 'a':
            nxt += k
            if f is None:
                out.append('err')
            else:
                f = (f[0], f[1] + rows); out.append('ok')
        elif p[0] == 'aw':
            nxt += k
            if f is None or (not f[0] and not f[1]):
                f = (True, rows)
            else:
                f = (f[0], f[1] + rows)
            out.append('ok')
        elif p[0] == 'z':
            f = (False, []); out.append('ok')
        elif p[0] == 'r':
            out.append('rerr' if f is None else 'r=' + ','.join(map(str, f[1] if f[0] else [])))
    return 'ok ' + ';'.join(out)


def check_c11(res, tier, replay):
    rng = random.Random(vlib.seed() + 11)
    vlib.apply_obligations(res, 'C11')
    nrt = 60 if tier == 'quick' else 2000
    lines, kinds = [], []
    if replay:
        rep = json.load(open(replay))
        for ln in rep.get('lines', []):
            lines.append('p%d %s' % (len(lines), ln)); kinds.append(ln.split(' ')[0])
    else:
        for i in range(nrt):
            lines.append('p%d CSVRT %d %d %d %d' % (len(lines), rng.randrange(1 << 30), rng.choice([0, 1, 5, 30]), rng.randrange(2), rng.choice([0, 0, 1, 3])))
            kinds.append('CSVRT')
        for i in range(nrt // 2):
            lines.append('p%d JSONRT %d %d' % (len(lines), rng.randrange(1 << 30), rng.choice([0, 1, 5, 30])))
            kinds.append('JSONRT')
        for i in range(nrt):
            n = rng.randrange(1, 12)
            ops = []
            headerless = True      # plain AppendToFile is only meaningful on a file the codec wrote (it never writes a header)
            for _ in range(n):
                op = rng.choice(['w:%d' % rng.choice([0, 1, 2, 5, 9]), 'a:%d' % rng.choice([0, 1, 3]), 'aw:%d' % rng.choice([0, 1, 4]), 'r', 'r', 'z'])
                if op.startswith('a:') and headerless:
                    op = 'aw:' + op[2:]
                if op[0] == 'z':
                    headerless = True
                elif op[0] in 'wa':
                    headerless = False
                ops.append(op)
            ops.append('r')
            lines.append('p%d CSVFILE %s' % (len(lines), ';'.join(ops)))
            kinds.append('CSVFILE')
    go = vlib.run_go(lines)
    model = vlib.run_model([l for l, k in zip(lines, kinds) if k == 'CSVFILE'])
    findings = load_findings('C11')
    crlf = 0
    bad = mism = 0
    cells = set()
    for ln, k in zip(lines, kinds):
        cid = ln.split(' ')[0]
        g = go.get(cid, 'missing')
        body = ln.split(' ', 2)[2]
        if k in ('CSVRT', 'JSONRT'):
            cells.add((k,) + tuple(body.split(' ')[1:]))
            if not g.startswith('ok'):
                bad += 1
                res.violation({'lines': [ln.split(' ', 1)[1]], 'go_output': g[:300],
                               'oracle': 'rows written and read back are identical (floats bit-for-bit), whatever the column order / extra columns'})
            elif 'crlf=' in g and int(g.split('crlf=')[1]) > 0:
                if 'Csv CRLF' in findings:
                    crlf += int(g.split('crlf=')[1])
                else:
                    bad += 1
                    res.violation({'lines': [ln.split(' ', 1)[1]], 'go_output': g[:300], 'problem': 'a string containing CR LF is read back with the CR removed'})
        else:
            ops = body.split(';')
            cells.add((k, tuple(o.split(':')[0] for o in ops[:6])))
            exp = py_csvfile(ops)
            m = model.get(cid, 'missing')
            if g != exp:
                bad += 1
                res.violation({'lines': [ln.split(' ', 1)[1]], 'go_output': g, 'expected': exp, 'model_output': m,
                               'oracle': 'writing replaces the file content, appending keeps the rows and adds the new ones after them'})
            elif g != m:
                mism += 1
                res.violation({'broken': 'correspondence', 'name': 'CSVFILE', 'lines': [ln.split(' ', 1)[1]], 'go_output': g, 'model_output': m}, True)
    if crlf:
        res.known_hit.append(known_line(findings['Csv CRLF']) + ' [%d rows]' % crlf)
    res.samples = [{'case': lines[i][:160], 'go': go.get(lines[i].split(' ')[0], '')[:160]} for i in (0, len(lines) // 2, len(lines) - 1)]
    res.coverage.update({
        'evaluations': len(lines), 'distinct_nontrivial': len(cells),
        'rule': 'CSV round trip of a 15-field struct over every supported kind (strings needing quotes/newlines, extreme ints, any finite float64 bit '
                'pattern, float32, bool, time in default and declared format) x column permutation x extra columns; JSON array round trip of the same '
                'rows; random write/append/append-or-write/read sequences on one file (incl. a longer file overwritten by a shorter one, 0-byte files)',
        'violations_found': bad, 'traces_validated_against_impl': len(lines) - mism, 'go_vs_model_mismatches': mism,
        'trusted_base': vlib.TRUSTED + ['strconv / time / encoding/csv / encoding/json round-trip each field (exercised, not proved)'],
    })
    res.assumptions = ['the field codecs of the Go standard library are a named assumption of the Lean glue theorems']
    return res.finish()


# ------------------------------------------------------------------------------------------ C12
def gen_store(rng, names, allow_missing=True, zero_byte=False):
    parts = []
    for n in names:
        if allow_missing and rng.random() < 0.2:
            continue
        k = rng.choice([0, 1, 2, 4, 8])
        if zero_byte and k == 0 and rng.random() < 0.6:
            parts.append('%s:z' % n)      # registered without content: a zero-byte file in a file-system target
            continue
        d, ds = rng.randrange(0, 20), []
        for _ in range(k):
            d += rng.choice([1, 1, 2, 5])
            ds.append(d)
        parts.append('%s:%s' % (n, ','.join(map(str, ds))))
    return ';'.join(parts) if parts else '-'


def py_sync(defday, assets, fail_src, fail_tgt, runs, src_spec, tgt_spec):
    serial = 0

    def parse(spec):
        nonlocal serial
        out = collections.OrderedDict()
        if spec == '-':
            return out
        for part in spec.split(';'):
            n, ds = part.split(':')
            lst = []
            for d in (ds.split(',') if ds and ds != 'z' else []):
                serial += 1
                lst.append((int(d), serial))
            out[n] = lst
        return out
    src, tgt = parse(src_spec), parse(tgt_spec)
    names = assets.split(',') if assets != '-' else sorted(tgt)
    errs = []
    for i in range(runs):
        err = False
        for n in names:
            start = tgt[n][-1][0] + 1 if tgt.get(n) else defday
            if (i == 0 and n in fail_src) or n not in src:
                err = True
                continue
            if i == 0 and n in fail_tgt:
                err = True
                continue
            tgt.setdefault(n, []).extend(x for x in src[n] if x[0] >= start)
        errs.append('t' if err else 'f')
    allnames = sorted(set(src) | set(tgt) | (set(names) if assets != '-' else set()))
    dump = ';'.join('%s=%s' % (n, 'err' if n not in tgt else ','.join('%d.%d' % x for x in tgt[n])) for n in allnames)
    return 'ok err=%s | %s' % (','.join(errs), dump)


def check_c12(res, tier, replay):
    rng = random.Random(vlib.seed() + 12)
    vlib.apply_obligations(res, 'C12')
    n = 150 if tier == 'quick' else 4000
    names = ['a', 'b.x', 'c', 'brk.b', 'e']      # dotted tickers: the file-system target lists its assets from file names
    cases = []
    if replay:
        cases = [tuple(c) for c in json.load(open(replay)).get('cases', [])]
    else:
        for _ in range(n):
            workers = rng.choice([1, 1, 2, 3, 8])
            assets = '-' if rng.random() < 0.3 else ','.join(rng.sample(names, rng.randrange(1, 6)))
            if assets != '-' and workers == 1 and rng.random() < 0.35:
                # a name listed twice (one worker: the two copies run one after the other, the second finds nothing missing)
                al = assets.split(',')
                al.insert(rng.randrange(len(al) + 1), rng.choice(al))
                assets = ','.join(al)
            fs = '-' if rng.random() < 0.7 else ','.join(rng.sample(names, rng.randrange(1, 3)))
            ft = '-' if rng.random() < 0.7 else ','.join(rng.sample(names, rng.randrange(1, 3)))
            impl = rng.choice(['mem', 'mem', 'fs', 'memtz'])     # memtz: local midnights in a daylight-saving zone (in-memory only)
            src_spec, tgt_spec = gen_store(rng, names), gen_store(rng, names, zero_byte=True)
            if impl == 'fs' and rng.random() < 0.5 and src_spec != '-':
                # an asset the source has data for, present in the target as a zero-byte file
                zn = rng.choice([p.split(':')[0] for p in src_spec.split(';')])
                parts = [p for p in (tgt_spec.split(';') if tgt_spec != '-' else []) if p.split(':')[0] != zn] + [zn + ':z']
                tgt_spec = ';'.join(sorted(parts))
            if impl == 'memtz' and rng.random() < 0.7:
                # the target's last date is the day daylight saving starts (a 23-hour day), the source has the next calendar day
                zn = rng.choice(names)
                def put(spec, ds):
                    parts = [p for p in (spec.split(';') if spec != '-' else []) if p.split(':')[0] != zn] + ['%s:%s' % (zn, ','.join(map(str, ds)))]
                    return ';'.join(sorted(parts))
                first = rng.randrange(3, 11)
                tgt_spec = put(tgt_spec, list(range(first, 12)))
                src_spec = put(src_spec, list(range(first - rng.randrange(0, 3), 12 + rng.randrange(1, 5))))
                if assets != '-' and zn not in assets.split(','):
                    assets = assets + ',' + zn
            runs = rng.choice([1, 2, 2, 3])
            if (fs != '-' or ft != '-') and rng.random() < 0.6:
                runs = 1          # with a single run the effect of an injected fault on the OTHER assets stays visible
            dd = rng.randrange(0, 30)
            # a default start date with a time of day (what cmd/indicator-sync passes): "<day>h"
            cases.append((workers, ('%dh' % dd) if rng.random() < 0.3 else dd, assets, fs, ft, impl, runs, src_spec, tgt_spec))
    lines = ['y%d SYNC %s' % (i, ' '.join(map(str, c))) for i, c in enumerate(cases)]

    def sync_model_line(c):
        c = list(c)
        if str(c[1]).endswith('h'):
            c[1] = int(str(c[1])[:-1]) + 1       # whole days in the model: a start inside day d selects the days after d
        return ' '.join(map(str, c))
    go, model = vlib.run_go(lines), vlib.run_model(['y%d SYNC %s' % (i, sync_model_line(c)) for i, c in enumerate(cases)])
    # the same cases under the race detector (-race build of the harness)
    okr, msgr = vlib.build_harness(race=True)
    race_reports = 0
    race_texts = []
    if okr:
        gr = vlib.run_go([l for l, c in zip(lines, cases) if c[0] > 1][:80 if tier == 'quick' else 600], race=True, nproc=4)
        race_texts = vlib.race_reports()
        race_reports = sum(1 for v in gr.values() if 'crash' in v or 'DATA RACE' in v) + len(race_texts)
    bad = mism = 0
    cells = set()
    for i, c in enumerate(cases):
        g, m = go.get('y%d' % i, 'missing'), model.get('y%d' % i, 'missing')
        exp = py_sync((int(str(c[1])[:-1]) + 1) if str(c[1]).endswith('h') else c[1], c[2], set(c[3].split(',')) if c[3] != '-' else set(), set(c[4].split(',')) if c[4] != '-' else set(), c[6], c[7], c[8])
        cells.add((c[0], c[2] == '-', c[3] != '-', c[4] != '-', c[5], c[6]))
        if g != exp:
            bad += 1
            res.violation({'cases': [list(c)], 'go_output': g[:500], 'expected': exp[:500], 'model_output': m[:500],
                           'oracle': 'target = previous ++ source snapshots dated after the target last date (or on/after the default start), failed assets '
                                     'reported and skipped, re-run adds nothing'})
        elif g != m:
            mism += 1
            res.violation({'broken': 'correspondence', 'name': 'SYNC', 'cases': [list(c)], 'go_output': g[:500], 'model_output': m[:500]}, True)
    if race_reports:
        bad += 1
        res.violation({'broken': 'data race', 'note': '%d sync runs with Workers > 1 crashed or reported a DATA RACE under the race detector' % race_reports,
                       'reports': [r[:2500] for r in race_texts[:2]] if okr else [],
                       'cases': [list(c) for c in cases if c[0] > 1][:3]})
    res.samples = [{'case': lines[i][:200], 'go': go.get('y%d' % i, '')[:200]} for i in (0, len(lines) // 2)]
    res.coverage.update({
        'evaluations': len(cases), 'distinct_nontrivial': len(cells),
        'rule': 'workers (1,2,3,8) x explicit/implicit asset list x failing source reads x failing target appends x target implementation '
                '(in-memory, file system) x number of consecutive runs (1-3) x random source/target contents (date-sorted, missing assets, empty assets)',
        'violations_found': bad, 'race_detector_runs': (80 if tier == 'quick' else 600) if okr else 0, 'race_reports': race_reports,
        'traces_validated_against_impl': len(cases) - mism, 'go_vs_model_mismatches': mism, 'trusted_base': vlib.TRUSTED,
    })
    res.assumptions = ['source repositories are date-sorted with whole-day dates; a name listed twice only with a single worker (two workers copying the same asset at once is outside what the property promises)',
                       'data races are a property of Go memory accesses: witnessed by the race detector, not by the model']
    return res.finish()


# ------------------------------------------------------------------------------------------ C13
def check_c13(res, tier, replay):
    rng = random.Random(vlib.seed() + 13)
    vlib.apply_obligations(res, 'C13')
    n = 40 if tier == 'quick' else 900
    cases = []
    # kdjA / kdjB share one Name(); 'zero' trades on sessions that close at 0 and ends with an undefined (NaN) outcome
    strat_pool = ['bh', 'macd', 'rsi', 'trix', 'bop', 'vwma', 'at1', 'at2', 'at3', 'at5', 'kdjA', 'kdjB', 'zero', 'zero']
    if replay:
        cases = [tuple(c) for c in json.load(open(replay)).get('cases', [])]
    else:
        for _ in range(n):
            ss = rng.sample(strat_pool, rng.randrange(1, 5))
            if rng.random() < 0.35:
                ss = rng.sample(['at1', 'at2', 'at3', 'at5', 'bh'], rng.randrange(2, 6))     # nearly equal outcomes in the tight price regime
                if rng.random() < 0.4:
                    ss.insert(rng.randrange(1, len(ss)), 'zero')     # an undefined outcome between defined ones
            if rng.random() < 0.25 and not ({'kdjA', 'kdjB'} <= set(ss)):
                ss = [x for x in ss if x not in ('kdjA', 'kdjB')] + ['kdjA', 'kdjB']     # two strategies of the same name in one run
                rng.shuffle(ss)
            cases.append((rng.choice([1, 2, 3, 4, 8, 16]), rng.choice(['rec', 'data', 'html', 'html', 'htmlbad']), rng.choice([20, 45, 365, 150000, 0, 1]), ','.join(ss),
                          rng.randrange(1 << 30), rng.randrange(1, 9), rng.choice([15, 40, 70])))
    lines = ['b%d BT %s' % (i, ' '.join(map(str, c))) for i, c in enumerate(cases)]
    go = vlib.run_go(lines, nproc=4)
    okr, _ = vlib.build_harness(race=True)
    race_bad = []
    if okr:
        sub = [l for l, c in zip(lines, cases) if c[0] > 1][:25 if tier == 'quick' else 200]
        gr = vlib.run_go(sub, race=True, nproc=3, timeout=1500)
        race_bad = [(k, v) for k, v in gr.items() if not v.startswith('ok fine') and v != 'ok runerr']
        race_bad += [('b%d' % cases.index(next(c for c in cases if c[0] > 1)), 'DATA RACE report: ' + r) for r in vlib.race_reports()[:3]]
    bad = 0
    cells = set()
    for i, c in enumerate(cases):
        g = go.get('b%d' % i, 'missing')
        cells.add((c[0], c[1], len(c[3].split(',')), c[5]))
        if not g.startswith('ok fine') and not (c[1] == 'htmlbad' and g == 'ok runerr'):
            bad += 1
            res.violation({'cases': [list(c)], 'go_output': g[:400],
                           'oracle': 'exactly one result per (asset, strategy) equal to the direct evaluation on the snapshots inside the look-back window; '
                                     'begin < assetBegin < writes < assetEnd < end; rankings non-increasing'})
    if race_bad:
        bad += 1
        res.violation({'broken': 'data race or crash under -race', 'reports': [(k, v[:2500]) for k, v in race_bad[:3]],
                       'cases': [list(cases[int(k[1:])]) for k, _ in race_bad[:3]]})
    res.samples = [{'case': lines[i], 'go': go.get('b%d' % i, '')[:120]} for i in (0, len(lines) // 2)]
    res.coverage.update({
        'evaluations': len(cases), 'distinct_nontrivial': len(cells),
        'rule': 'workers (1..16) x report implementation (recording, DataReport, HTMLReport) x look-back window x strategy list x random assets; '
                'the harness compares every delivered result with ComputeWithOutcome on the windowed snapshots, validates the call protocol and parses '
                'the outcome columns of the generated HTML pages for non-increasing order; the row order of every page is also compared with the exact outcomes '
                '(scripted buy-at-k strategies on slowly drifting prices give outcomes closer than 0.01 percentage point) and the index entry of an asset must be its maximum',
        'violations_found': bad, 'race_detector_runs': len(race_bad) if race_bad else ((25 if tier == 'quick' else 200) if okr else 0),
        'traces_validated_against_impl': len(cases), 'trusted_base': vlib.TRUSTED + ['slices.SortFunc sorts with a lawful comparator (Go standard library)'],
    })
    res.assumptions = ['data dated relative to the wall clock (the look-back window is computed from time.Now())',
                       'data races witnessed by the race detector, not by the model']
    return res.finish()


# ------------------------------------------------------------------------------------------ C19
def mutate(rng, raw):
    b = bytearray(raw)
    for _ in range(rng.randrange(1, 4)):
        r = rng.random()
        if r < 0.3 and b:
            del b[rng.randrange(len(b)):]                          # truncate
        elif r < 0.5 and b:
            b[rng.randrange(len(b))] = rng.randrange(256)
        elif r < 0.7:
            b[rng.randrange(len(b) + 1):0] = rng.choice([b',', b'"', b'\n', b'\r\n', b'x', b'1e999', b'{', b']', b'\x00', b',,'])
        elif r < 0.85 and b:
            i = rng.randrange(len(b)); del b[i:i + rng.randrange(1, 5)]
        else:
            b += rng.choice([b'a,b\n', b'"unterminated', b'1,2,3,4,5\n', b'x\n'])
    return bytes(b)


def gen_csv_doc(rng, header):
    rows = []
    if header:
        cols = ['Name', 'Count', 'Value', 'Flag']
        if rng.random() < 0.3:
            rng.shuffle(cols)
        if rng.random() < 0.2:
            cols = cols[:rng.randrange(1, 4)]
        if rng.random() < 0.2:
            cols.append('Extra')
        rows.append(','.join(cols))
        n = len(cols)
    else:
        n = rng.choice([4, 4, 4, 3, 5, 1])
    for _ in range(rng.randrange(0, 6)):
        vals = [rng.choice(['abc', '"q,x"', '', 'z']), str(rng.choice([0, -5, 12, 2**40, 'x', '1.5', '007', '010', '-08', '+9', '0x1F', '1_000', '0b11', '0o17'])),
                str(rng.choice([1.5, -2, '1e10', 'nanx', 'Inf', ''])), rng.choice(['true', 'false', '1', 'T', 'yes', ''])]
        vals = (vals + ['e'] * 3)[:n]
        if rng.random() < 0.25:      # a cell padded with white space: not a number / boolean as written
            k = rng.randrange(len(vals))
            vals[k] = rng.choice([' ', '  ', '\t']) + vals[k] if rng.random() < 0.5 else vals[k] + rng.choice([' ', '\t'])
        rows.append(','.join(vals))
    return ('\n'.join(rows) + ('\n' if rng.random() < 0.8 else '')).encode()


def check_c19(res, tier, replay):
    rng = random.Random(vlib.seed() + 19)
    vlib.apply_obligations(res, 'C19')
    n = 400 if tier == 'quick' else 12000
    lines = []
    if replay:
        lines = ['m%d %s' % (i, l) for i, l in enumerate(json.load(open(replay)).get('lines', []))]
    else:
        for _ in range(n):
            header = rng.random() < 0.5
            raw = gen_csv_doc(rng, header)
            if rng.random() < 0.6:
                raw = mutate(rng, raw)
            if rng.random() < 0.1:
                raw = bytes(rng.randrange(256) for _ in range(rng.randrange(0, 40)))
            lines.append('m%d CSVBAD %d %s' % (len(lines), 1 if header else 0, binascii.hexlify(raw).decode() or '00'))
        for _ in range(n // 2):
            k = rng.randrange(0, 5)
            elems = ['{"a":%d,"b":"%s"}' % (rng.randrange(100), rng.choice(['x', 'y\\n', ''])) for _ in range(k)]
            for j in range(len(elems)):       # members left out (they must come out as zero values, not as what the previous element had) and unknown members
                r2 = rng.random()
                if r2 < 0.15:
                    elems[j] = '{"a":%d}' % rng.randrange(100)
                elif r2 < 0.3:
                    elems[j] = '{"b":"%s"}' % rng.choice(['p', 'q'])
                elif r2 < 0.4:
                    elems[j] = '{}'
                elif r2 < 0.5:
                    elems[j] = elems[j][:-1] + ',"zz":[1,2]}'
            if rng.random() < 0.2:
                elems.insert(rng.randrange(0, len(elems) + 1), rng.choice(['null', '7', '"x"', '[]', '{}']))
            doc = '[' + ','.join(elems) + ']'
            raw = doc.encode()
            r = rng.random()
            if r < 0.5:
                raw = mutate(rng, raw)
            elif r < 0.6:
                raw = rng.choice([b'{"a":1}', b'42', b'"str"', b'null', b'', b'[', b'[1,2', b'[{"a":"no"}]', b'[{"a":1}{"a":2}]'])
            lines.append('m%d JSONBAD %s' % (len(lines), binascii.hexlify(raw).decode() or '20'))
        for _ in range(n // 5):
            status = rng.choice([200, 200, 200, 201, 204, 301, 400, 401, 404, 429, 500, 503])
            k = rng.randrange(0, 4)
            elems = ['{"date":"2020-01-0%dT00:00:00.000Z","adjClose":%d.5,"adjVolume":%d}' % (j + 1, j, j * 10) for j in range(k)]
            for j in range(len(elems)):       # members the client does not know (the service adds fields over time) and members left out
                r2 = rng.random()
                if r2 < 0.2:
                    elems[j] = elems[j][:-1] + ',"vwap":%d.25,"splitFactor":1.0}' % j
                elif r2 < 0.3:
                    elems[j] = '{"date":"2020-01-0%dT00:00:00.000Z"}' % (j + 1)
            r = rng.random()
            if r < 0.3:
                # elements of the wrong JSON kind in an otherwise valid array: null, numbers, strings, arrays, empty objects
                if rng.random() < 0.8:
                    status = 200
                for _ in range(rng.randrange(1, 3)):
                    elems.insert(rng.randrange(0, len(elems) + 1), rng.choice(['null', 'null', '7', '"x"', '[]', '{}', 'true', '{"date":null}', '{"adjClose":"1"}']))
            body = ('[' + ','.join(elems) + ']').encode()
            if r > 0.6:
                body = mutate(rng, body)
            elif 0.3 <= r < 0.42:
                # a top-level value that is not an array (what a gateway or a rate limiter answers with), mostly under status 200
                body = rng.choice([b'null', b'[null', b'[null]', b'{}', b'', b'[[', b'"[]"', b'42', b'true', b'"rate limit exceeded"', b'{"detail":"not found"}', b'-1.5e3'])
                if rng.random() < 0.7:
                    status = 200
            lines.append('m%d TIINGO %d %s' % (len(lines), status, binascii.hexlify(body).decode() or '20'))
    go = vlib.run_go(lines)
    # a crash (panic in a library goroutine) loses a whole chunk: re-run unanswered cases one by one
    for ln in lines:
        cid = ln.split(' ')[0]
        if go.get(cid, '').startswith('crash'):
            go[cid] = vlib.run_go([ln], nproc=1).get(cid, 'crash')
    bad = 0
    kinds = collections.Counter()
    outcomes = collections.Counter()
    cells = set()
    for ln in lines:
        cid = ln.split(' ')[0]
        g = go.get(cid, 'missing')
        kind = ln.split(' ')[1]
        kinds[kind] += 1
        outcomes[kind + ':' + g.split(' ')[0] + (':rows>0' if g.startswith('ok') and not g.startswith('ok 0') else '')] += 1
        cells.add((kind, len(ln) // 20, g[:6]))
        problem = None
        if not g.startswith('ok'):
            problem = 'reader did not terminate normally: ' + g[:200]
        elif 'leak=' in g:
            problem = 'goroutines left behind: ' + g
        elif kind == 'TIINGO':
            status = int(ln.split(' ')[2])
            if status != 200 and ('since=ok' in g or 'last=ok' in g):
                problem = 'non-success HTTP status surfaced as success: ' + g
            m = re.search(r'since=ok:(\d+) want=(\d+)', g)
            if status == 200 and m and m.group(1) != m.group(2):
                problem = 'the repository delivered %s snapshots, the well-formed prefix of the body has %s: %s' % (m.group(1), m.group(2), g)
        elif kind == 'JSONBAD' and ' diff ' in g:
            problem = 'records delivered differ from the well-formed prefix decoded element by element: ' + g[:300]
        if problem:
            bad += 1
            res.violation({'lines': [ln.split(' ', 1)[1]], 'problem': problem,
                           'oracle': 'records of the well-formed prefix in order, then close; no panic, no hang, no goroutine left; non-200 status = error'})
    res.samples = [{'case': lines[i][:160], 'go': go.get(lines[i].split(' ')[0], '')[:120]} for i in (0, len(lines) // 2, len(lines) - 1)]
    res.coverage.update({
        'evaluations': len(lines), 'distinct_nontrivial': len(cells),
        'rule': 'generated and mutated CSV documents (with/without header row, permuted/missing/extra header columns, wrong field counts, wrong types, '
                'bad quoting, truncation, random bytes), JSON documents (truncated, wrong top-level value, wrong element types) and Tiingo HTTP responses '
                '(status codes x bodies); the CSV rows delivered are compared with the well-formed prefix computed with encoding/csv + strconv',
        'case_kinds': dict(kinds), 'outcome_kinds': dict(outcomes), 'violations_found': bad,
        'traces_validated_against_impl': len(lines), 'trusted_base': vlib.TRUSTED + ['encoding/csv, encoding/json, net/http of the Go standard library'],
    })
    res.assumptions = ['a panic inside a library goroutine kills the harness process: detected as a crash and re-run in isolation',
                       'HTTP response bodies that are not closed on error paths are not observable here (named, not checked)']
    return res.finish()
