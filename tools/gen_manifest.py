#!/usr/bin/env python3
"""Regenerates MANIFEST.json from the table below (kept in one place so it stays valid)."""
import json, os
ROOT = os.path.dirname(os.path.dirname(os.path.abspath(__file__)))

NOTE_COMMON = ('Trusted: Lean 4.33 kernel (axioms audited per theorem: propext, Classical.choice, Quot.sound only; no sorry, '
               'no native_decide); the hand-written Lean model; the correspondence harness (Go, rebuilt from /repo on every '
               'run) and comparator that tie model and code; Go runtime channel semantics; IEEE binary64 in both runtimes.')

CLAIMED = {
    'C16': dict(level='proof', technique='Lean 4 proof (induction) of goroutine-model = slice function + differential correspondence Go vs model',
                text='Each helper goroutine (incl. Since, Echo, Seq, ChangePercent) is modelled as a recursion that mirrors its loop (what it emits and what it leaves unread); '
                     'Lean proves, for all inputs and parameters, that this equals the slice counterpart, that zips have the length of the '
                     'shortest input and that all inputs are consumed. The model is tied to the Go code by running both on the same cases '
                     '(outputs and per-input consumption) and the slice oracle is evaluated independently on the Go output.',
                design='§6 C16', note=NOTE_COMMON + ' Sequential-goroutine reading of a helper (its result as a function of complete input streams) relies on Kahn determinism, examined under C03.'),
    'C17': dict(level='proof', technique='Lean 4 refinement proofs (ring -> bounded FIFO, search tree -> sorted list/multiset) over all operation histories + differential correspondence',
                text='The ring model mirrors buffer/begin/end/empty; Lean proves a representation invariant and that every operation history '
                     'produces exactly the observations of a bounded FIFO, for all capacities >= 1. The tree model mirrors the pointer algorithm and is proved, for a lawful order, to give the observations of a sorted list for every history of insert/remove/contains/min/max. '
                     'Both are tied to the Go code by random histories over every element type (including extremes and duplicates), comparing every '
                     'observation and (thorough) the tree shape.',
                design='§6 C17', note=NOTE_COMMON + ' Element order assumed linear (NaN excluded).'),
}

CLAIMED.update({
    'C01': dict(level='proof', technique='Lean 4 model (Sig DSL) with positional semantics + documented-formula spec in Lean, differential correspondence Go vs model and Go vs formula',
                text='Each of the 61 Compute bodies is a Lean term whose list semantics is executed against the Go code on generated configurations and series '
                     '(bit-for-bit agreement expected); the documented formula of each indicator is a second, independent Lean definition by position (no Skip/Shift), '
                     'evaluated on the same inputs and compared with the Go output. Theorems: generic soundness of the positional semantics (Sig.sound) and per-indicator '
                     'alignment; formula-equality theorems for all 52 indicators whose code follows its documented formula (listed in the evidence; incl. sliding-tree extrema, ring-based WMA/std, all moving-average kinds, '
                     'Kama, Po, SuperTrend, Mfi, Nvi), for KeltnerChannel/StochasticRsi with separately configured components, and over the integers (truncating division) for Sma, MovingSum, MovingMax, MovingMin, Donchian, '
                     'TypicalPrice, WeightedClose, tied to the int64 instantiation of the library by the INDI/INDZ run. Known deviations (Apo, Dema, Emv, Fi, Obv, UlcerIndex, Aroon, Tsi) are recorded findings.',
                design='§6 C01', note=NOTE_COMMON + ' The formulas in Spec/Indicators.lean are my reading of the doc comments; theorems are over the reals, rounding is bounded by a 1e-9 tolerance comparison.'),
    'C02': dict(level='proof', technique='Lean 4 proof: alignment typing of every Compute body (77 theorems, all admissible periods) + generic soundness theorem; correspondence on lengths',
                text='For every indicator and all admissible periods Lean proves that every output is well aligned at the declared idle period; with the generic soundness theorem this '
                     'gives exactly n - idle values on every output for every n, the k-th being the value for position k+idle. The model is tied to Go by running both; '
                     'Go output counts and IdlePeriod() are checked against n - idle on dense sweeps of n in [0, 2w+2].',
                design='§6 C02', note=NOTE_COMMON),
    'C04': dict(level='proof', technique='Lean 4 proof: causality of the positional semantics (den_causal) + alignment => prefix law and independence of later inputs for every indicator; Go-vs-Go prefix/suffix relation',
                text='Generic theorem: the value for position i depends only on input positions <= i; with alignment this yields, for all 61 indicators and all admissible periods, '
                     'that a run on a prefix is the prefix of the run and that later inputs never change earlier outputs. Go is tied to the model by correspondence, and the relation itself '
                     'is checked Go-vs-Go bit-exactly on prefixes and suffix rewrites.',
                design='§6 C04', note=NOTE_COMMON + ' Strategies are covered when C05/C07 are claimed.'),
})

CLAIMED.update({
    'C15': dict(level='proof', technique='Lean 4 theorems on the documented formulas over the reals + range/ordering oracle on Go outputs + correspondence',
                text='Ranges and band orderings are evaluated directly on the Go outputs of every bounded/banded indicator over valid OHLCV series in all regimes (independent of any reference), '
                     'the Go code is tied to the Lean model by correspondence, and 22 range/ordering theorems are proved over the reals on the documented formulas for every valid OHLCV series, position and period (RSI, MFI, %K, %D bound, Williams %R, Stochastic RSI, Aroon, MFM, CMF, BoP, Bollinger/Keltner/Donchian/Acceleration/Envelope orderings, moving min <= value <= max, std/ATR/Ulcer/band width >= 0), with zero-denominator positions exempt by explicit hypotheses. A non-finite Go value is exempt only where the documented formula (evaluated by the Lean driver) is undefined too.',
                design='§6 C15', note=NOTE_COMMON + ' Known findings: Aroon on plateaus, ATR smoothed with a Hull MA, NaN persisting after a degenerate bar in CMF, %D and Stochastic RSI.'),
    'C18': dict(level='proof', technique='Lean 4 homogeneity theorems on the model over the reals + bit-exact Go-vs-Go scaling relation with power-of-two factors + correspondence',
                text='Every indicator output has a declared degree of homogeneity in price and in volume; the relation output(scaled) = factor^degree * output is checked Go-vs-Go bit-for-bit for power-of-two '
                     'factors on all 61 indicators, the Go code is tied to the Lean model by correspondence, homogeneity theorems (output scaled by k^dp*kv^dv, warm-up unchanged) are proved over the reals for the documented formulas of all 61 indicators via structural scaling rules (generated ones + RSI, Stochastic RSI, MFI, VPT, Aroon, KAMA, NVI, SuperTrend and the projection oscillator by hand), and the decision tests of the strategies (comparisons of same-degree quantities, signs, the Stop-Loss test) are proved scale-free; all strategies incl. decorators are additionally run Go-vs-Go under price/volume scaling (identical action streams).',
                design='§6 C18', note=NOTE_COMMON + ' IEEE scaling by powers of two assumed exact (no overflow/underflow in the generated range). Known finding: Obv.'),
})

CLAIMED.update({
    'C05': dict(level='proof', technique='Lean 4 proof: every base strategy is Shift(idle, Hold) over a stream aligned at idle (44 generated theorems) + generic counting theorem; correspondence and count oracle on Go',
                text='For 34 base-strategy configurations families Lean proves the body is the Go Shift(actions, idle, Hold) over an inner decision stream aligned exactly at idle, for all admissible periods; the generic '
                     'theorem then gives exactly n actions with idle leading Holds for n >= idle and exactly idle Holds for shorter inputs, for every input. Alligator/Smma are proved as-is to emit n+1 (known findings). '
                     'All 32 strategies are run against the model (identical action streams) and against the counting oracle for n in {0,1,w-1,w,w+1,2w+3,...}.',
                design='§6 C05', note=NOTE_COMMON + ' Actions are encoded as numbers -1/0/1 in the model (Go Action is an int). Dema and Trima strategies: correspondence + oracle only.'),
    'C06': dict(level='proof', technique='Lean 4 proof: den(strategy) = documented rule(den(documented indicator on documented fields)) (34 generated + 4 hand-written theorems: all base strategies except the three recorded deviations) + rule oracle on Go outputs + correspondence',
                text='For 29 of the 32 base strategies (all moving-average kinds of Envelope and SuperTrend; DEMA with four EMA periods; BoP and buy-and-hold without warm-up) Lean proves that the decision at position i is the documented rule applied to the C01/C02 indicator model evaluated on the documented snapshot fields at the same position. '
                     'Independently, the documented rule (Python transcription) is applied to the real indicator outputs on the documented fields and compared with the real actions on OHLCV series whose fields vary independently.',
                design='§6 C06', note=NOTE_COMMON + ' tools/scatalog.py holds my transcription of the documented rules. Known findings: CciStrategy field wiring, Alligator/Smma one-day lag, TripleRsi comparison direction.'),
    'C07': dict(level='proof', technique='Lean 4 proofs over arbitrary action words: pointwise vote theorems, split/inverse specs, No-Loss and Stop-Loss safety invariants (reals) + exhaustive/random differential correspondence with scripted stubs',
                text='And/Or/Majority are proved equal to the position-wise vote over the denormalised sources with length = shortest source, for any number k>=1 of sources and any words; Split and Inverse are characterised; '
                     'No-Loss (never sells at a close not above the preceding Buy close) and Stop-Loss (sells at the first close at or below purchase*(1-pct), 0<=pct<1) are invariants proved by induction over the history. '
                     'The Go combinators are driven with scripted stub strategies (all 27x27 word pairs of length 3, all words to length 5 for decorators, random nesting) and compared with the model and an independent oracle.',
                design='§6 C07', note=NOTE_COMMON + ' Wrapped strategies are stubs replaying arbitrary words of at least one action per snapshot.'),
    'C08': dict(level='proof', technique='Lean 4 proofs by induction over action histories (portfolio invariant, normalisation alternation, round trip) + differential correspondence and property oracle on Go',
                text='Outcome length, >= -100%, zero before the first Buy, buy-and-hold = v_i/v_0-1, invariance under normalisation, alternation of normalised streams starting with Buy and normalize-denormalize-normalize = normalize are theorems for all words and all positive value series; '
                     'the Go Outcome/Normalize/Denormalize/CountTransactions are compared bit-for-bit with the model on all words up to length 5 and random words/series of unequal lengths, and each property is evaluated on the Go output.',
                design='§6 C08', note=NOTE_COMMON + ' Theorems over the reals (positive values).'),
})

CLAIMED.update({
    'C14': dict(level='proof', technique='Lean 4 theorems for the two report shapes (Shift-by-idle columns / Skip-by-idle axis) from alignment + per-report oracle on the real Report column channels',
                text='Column count = date count is derived in Lean from the alignment of the indicator stream at exactly idle (C02), the action count law (C05) and the normalisation/outcome length laws (C08), '
                     'for both report shapes, instantiated for the reports of all 32 base strategies (every moving-average kind of Envelope/SuperTrend), with the APO, Alligator and SMMA columns proved one too long as-is. Every report (32 base, 12 compound/decorated) is run in Go: the date channel and all '
                     'private column channels are drained by independent readers and compared for counts and row contents (close, annotation of the normalised action, outcome, indicator value of the same date).',
                design='§6 C14', note=NOTE_COMMON + ' Compound and decorated reports rest on the generic shape theorems + the Go oracle. Reports written by a backtest (HTMLReport defaults) and the rendered rows (WriteToWriter) are checked on the Go side only. text/template rendering is trusted.'),
})

CLAIMED.update({
    'C10': dict(level='proof', technique='Lean 4 refinement proof: repository state machines (in-memory, SQL rows) refine the abstract map asset -> appended rows, over all operation histories + differential correspondence with the Go repositories (file system, in-memory, database/sql behind a fake driver)',
                text='Both repository models are state machines over Append/Get/GetSince/LastDate/Assets; Lean proves by induction over arbitrary operation histories that every observation equals that of the abstract map (rows in append order, GetSince filtered by date >= d, LastDate = last row or not-found, an unknown asset never aliases another). '
                     'The three Go repositories are driven with generated histories (unknown assets, empty appends, repeated appends, date filters) and compared with the model and an independent oracle. SQL Get of an unknown asset returning an empty success is a recorded finding.',
                design='§6 C10', note=NOTE_COMMON + ' database/sql is exercised against an in-process fake driver that implements the three statements of the default dialect; a real SQL engine is not available offline.'),
    'C11': dict(level='proof', technique='Lean 4 theorems about the file-level glue (write replaces, append keeps, append-or-write, columns located by header name) + round-trip correspondence on the real codecs for all supported field kinds',
                text='File-level laws (a write replaces the content; appends keep existing rows; AppendOrWrite on a missing/empty file writes the header; reading locates each struct column by header name regardless of order and extra columns) are theorems of the row-level file model for all histories. '
                     'The field codecs (strconv/time/encoding/csv/encoding/json) are exercised in Go: generated rows with every supported kind incl. extreme values, NaN/Inf, quoting-sensitive strings, custom date formats, shuffled/extra columns, must read back identical, and file histories are compared with the model.',
                design='§6 C11', note=NOTE_COMMON + ' Field codecs are trusted standard library, covered by round-trip runs only. A plain AppendToFile onto an existing 0-byte file (rows without header) is outside the property domain (model predicate WF).'),
    'C12': dict(level='proof', technique='Lean 4 proofs about the Sync state machine (per-asset result, failure isolation, commutation of per-asset steps => worker/order independence, idempotence) + correspondence with Go under the race detector and fault injection',
                text='Sync is modelled as a per-asset step over (source, target, fault) -> (target, error); Lean proves for all repositories and asset lists that a successful asset ends with target rows = previous rows + source rows since (last date or default start), that a failing asset leaves its rows unchanged and other assets unaffected, '
                     'that per-asset steps commute (so any worker count or completion order gives the same target), that a failure is reported and that re-running is idempotent on the modelled source. Go Sync is run with 1..8 workers, injected Get/Append/LastDate faults and delayed workers, built with -race, and compared with the model.',
                design='§6 C12', note=NOTE_COMMON + ' Goroutine scheduling itself is explored by repetition under the race detector, not proved.'),
    'C13': dict(level='proof', technique='Lean 4 proofs over all interleavings of per-asset blocks (every pair once, protocol order inside an asset) and sortedness under the lawful comparator + correspondence of the Go Backtest with a recording report under -race',
                text='The report sees an interleaving of the per-asset blocks; Lean proves for every interleaving (any worker count) that the writes are a permutation of all (asset, strategy) pairs and that each asset block keeps AssetBegin < writes in strategy order < AssetEnd; ranking by the lawful comparator is non-increasing (and the truncating comparator is shown not to be); with outcomes that may be undefined (NaN) the comparator cmp.Compare(b, a) is a lawful total preorder, every sorted ranking is non-increasing on the defined outcomes with the undefined ones last and its head is the maximum, also for the insertion sort Go runs on short lists, while a comparator that treats NaN as equal to everything leaves [0, NaN, 1] unsorted. '
                     'Go Backtest is run with 1..8 workers, varying assets/strategies, a recording report (protocol automaton), the Data and HTML reports (ranking oracle incl. outcomes closer than one percentage point and a scripted strategy whose outcome is NaN), look-back windows from 0 days, unknown and stale assets, a second run on the same report objects (also after a failed page write), all with -race.',
                design='§6 C13', note=NOTE_COMMON + ' slices.SortFunc is trusted given a lawful comparator; HTML template rendering is trusted.'),
    'C19': dict(level='proof', technique='Lean 4 theorems about the reader loop over an abstract parser (delivered rows = decoded well-formed prefix; short records undecodable; non-200 is an error) + correspondence of the Go readers on generated and corrupted documents with a goroutine census',
                text='The reader loops are total functions of the parser events: Lean proves the delivered rows are exactly the decoded records of the well-formed prefix and that a record shorter than a mapped column cannot be decoded. '
                     'Go: valid CSV/JSON documents are corrupted (truncation, short/long records, bad numbers/dates, wrong JSON types, garbage) and fed to ReadFromReader/JSONToChan/Tiingo (httptest server with status codes and bodies); expected: no panic, no extra rows beyond the good prefix, error reported, channels closed, goroutine count back to baseline.',
                design='§6 C19', note=NOTE_COMMON + ' encoding/csv, encoding/json and net/http are the trusted standard library.'),
})

CLAIMED.update({
    'C03': dict(level='proof', technique='Lean 4 proofs about the process-network class (diamond, determinacy of the terminal state incl. the deadlock verdict, capacity monotonicity, hand-over of channel ends) and clean-termination proofs of four library pipelines and of all linear chains, a sequential-composition theorem + source scan that the library stays in the class + Go runs of every pipeline under schedules/capacities/pacings with a goroutine census',
                text='Proved for every network of sequential processes over bounded FIFO channels (unbuffered = rendezvous) in which no two processes are ever about to use the same end of a channel (one fixed reader and writer per channel, or ends that are handed over as in Ema/Rma/Smma - for which this is proved as an invariant): two enabled processes commute; if one schedule reaches a terminal state every schedule can be extended to that same state and none is longer, so delivered values, their order and the verdict (clean termination or deadlock) do not depend on interleaving, GOMAXPROCS or pacing; a clean termination with small capacities holds for all larger ones. '
                     'Clean termination with exactly the documented values is proved, for every input, parameter, capacity and schedule, for six pipelines at machine level - helper.Change, trend.MovingSum, trend.MovingMax, trend.MovingMin (the MovingSum network with an arbitrary stateful closure), trend.Sma and the Ema/Rma/Smma hand-over (seed pipeline as one process) - and for every linear chain of map/skip/shift/pipe stages of any length (by induction through a sequential-composition theorem for networks that share one channel). NOT proved: that every other concrete pipeline terminates cleanly for every configuration and length - that part is explored by running all 61 indicators, 32 strategies (Compute, Report, ComputeWithOutcome) and compound/decorated strategies over configurations (incl. extreme period spreads), lengths around every period, unequal input lengths, under GOMAXPROCS x input capacity x pacing settings, with a deadlock verdict from a goroutine census, a leak census and comparison of the outputs between schedules and with the Lean list-semantics model. '
                     'Seven machine-level networks (the Duplicate/Operate diamond, Change, MovingSum, MovingMax, MovingMin, Sma, Ema) are executed against the Go helpers (verdict and values).',
                design='§6 C03', note=NOTE_COMMON + ' Termination for all configurations/lengths is bounded exploration, hence proof-partial. The class membership of the code is a regex source scan (no select, no len(chan), no timers/locks in the pipeline packages).'),
    'C09': dict(level='proof', technique='Model: an instance is its configuration (calls are functions of configuration and input - the Lean models of C01/C05 have no instance state); tie: reuse histories and concurrent calls on one Go instance under the race detector compared with fresh instances and the model + receiver-write source scan',
                text='In the model a Compute/Report call is a pure function of configuration and input, so reuse is definitional; the content is the tie: every indicator and strategy instance (Compute, Report, ComputeWithOutcome; compound and decorated ones; the shared instances of AllSplitStrategies/AllAndStrategies) is called several times in sequence and concurrently with different inputs, race detector on, and each result must equal the fresh-instance result and the Lean model. '
                     'A source scan rejects assignments to receiver fields inside Compute/Report. Instances re-configured after use (exported fields assigned from a fresh donor, in place, or as a zeroed struct literal) must equal fresh instances (RECONF); reports are rendered concurrently as the first writes of a process; instances handed out by registries and default constructors are independent objects (ALIAS: one generation overwritten in place, the others unchanged); one instance on two sides of a compound equals two equal instances.',
                design='§6 C09', note=NOTE_COMMON + ' Data races are a property of Go memory accesses that the model cannot exhibit: absence of races is witnessed by the race detector on the executions run, not proved.'),
})

PENDING = {}

def main():
    props = [json.loads(l) for l in open(os.path.join(ROOT, 'properties.jsonl'))]
    checks, na = [], []
    extra = json.load(open(os.path.join(ROOT, 'tools', 'manifest_table.json'))) if os.path.exists(os.path.join(ROOT, 'tools', 'manifest_table.json')) else {}
    table = dict(CLAIMED)
    table.update(extra.get('claimed', {}))
    pending = dict(PENDING)
    pending.update(extra.get('not_applicable', {}))
    for p in props:
        pid = p['id']
        if pid in table:
            c = table[pid]
            checks.append({
                'property_id': pid,
                'quick_cmd': './check %s --tier quick' % pid,
                'thorough_cmd': './check %s --tier thorough' % pid,
                'evidence_file': '/verif/evidence/%s.json' % pid,
                'replay_cmd_template': './check %s --replay {path}' % pid,
                'engine': 'lean4-proof+correspondence',
                'level_claimed': {'category': c['level'], 'text': c['text'], 'design_ref': c['design']},
                'level_note': c['note'],
                'technique': c['technique'],
            })
        else:
            na.append({'property_id': pid, 'reason': pending.get(pid, 'check not built yet in this round (machinery under construction; see DESIGN.md §10)')})
    man = {
        'version': 1,
        'setup_cmd': 'bash tools/setup.sh',
        'hooks': {'guard': 'verif', 'enable': 'go build -tags verif (no hook file is needed at present; the tag is passed for forward compatibility)',
                  'baseline_off_cmd': 'cd /repo && GOFLAGS=-mod=mod GOPROXY=off GOTOOLCHAIN=local go test -vet=off -count=1 ./...',
                  'source_commits': [], 'add_only': True},
        'engines': [{'name': 'lean4-proof+correspondence', 'path': '/verif/lean', 'serves_properties': [c['property_id'] for c in checks],
                     'kind_free_text': 'Lean 4 theorems about a hand-written executable model (lean/IndicatorVerif) + Go harness (harness/) and Python comparator (tools/) that run model and implementation on the same cases'}],
        'checks': checks,
        'notes': 'Known findings are listed in known_findings.json; DESIGN.md describes the approach, trusted base and the seeded changes each check detects.',
        'not_applicable': na,
    }
    json.dump(man, open(os.path.join(ROOT, 'MANIFEST.json'), 'w'), indent=1)
    print('claimed', [c['property_id'] for c in checks])

main()
