#!/usr/bin/env python3
"""Entry point: ./check <ID> [--tier quick|thorough] [--replay file]"""
import sys, os, json, importlib
sys.path.insert(0, os.path.dirname(os.path.abspath(__file__)))
import vlib

GROUPS = {
    'C16': 'c_helpers', 'C17': 'c_helpers',
    'C01': 'c_indicators', 'C02': 'c_indicators', 'C04': 'c_indicators', 'C15': 'c_indicators',
    'C18': 'c_indicators',
    'C05': 'c_strategies', 'C06': 'c_strategies', 'C07': 'c_strategies', 'C08': 'c_strategies',
    'C14': 'c_strategies',
    'C03': 'c_runtime', 'C09': 'c_runtime', 'C19': 'c_assets',
    'C10': 'c_assets', 'C11': 'c_assets', 'C12': 'c_assets', 'C13': 'c_assets',
}


def main():
    if len(sys.argv) < 2:
        print('usage: check <ID> [--tier quick|thorough] [--replay file]')
        return 2
    prop = sys.argv[1].upper()
    if prop not in GROUPS:
        print('unknown property', prop)
        return 2
    tier = vlib.tier(sys.argv)
    replay = None
    if '--replay' in sys.argv:
        replay = sys.argv[sys.argv.index('--replay') + 1]
    res = vlib.Result(prop, tier)
    # 1. build against the current working tree
    ok, msg = vlib.build_harness()
    okl, msgl = vlib.build_lean(('ivdriver',))
    if not okl:
        res.violation({'broken': 'theorem', 'name': 'lake build ivdriver', 'build_msg': msgl}, True)
        res.coverage.update({'obligations': 1, 'discharged': 0, 'checker_cmd': 'lake build', 'trusted_base': vlib.TRUSTED})
        return res.finish()
    if not ok:
        res.violation({'broken': 'correspondence', 'name': 'harness build against /repo',
                       'build_msg': msg[-3000:],
                       'note': 'the harness no longer compiles against the current tree; no case could be run'}, True)
        res.coverage.update({'obligations': 1, 'discharged': 0, 'checker_cmd': 'go build', 'trusted_base': vlib.TRUSTED})
        return res.finish()
    mod = importlib.import_module(GROUPS[prop])
    fn = getattr(mod, 'check_' + prop.lower())
    try:
        return fn(res, tier, replay)
    except Exception:
        # the comparison machinery met an output it cannot interpret (it never does on a tree whose outputs have the shape the
        # model predicts): the correspondence is broken; concrete violations found before the failure are still reported first
        import traceback
        tb = traceback.format_exc()
        sys.stderr.write(tb)
        res.violation({'broken': 'correspondence', 'name': 'check machinery of ' + prop,
                       'note': 'the check stopped on an output of the implementation that it could not interpret', 'traceback': tb[-3000:]}, True)
        res.coverage.setdefault('obligations', 0)
        res.coverage.setdefault('discharged', 0)
        res.coverage.setdefault('checker_cmd', 'lake build')
        res.coverage.setdefault('trusted_base', vlib.TRUSTED)
        return res.finish()


if __name__ == '__main__':
    sys.exit(main())
