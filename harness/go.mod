module ivharness

go 1.22

require github.com/cinar/indicator/v2 v2.0.0

replace github.com/cinar/indicator/v2 => /repo
