package main

// REPORTW <name> <ns> <fs> <streams> <zoneSeconds>: the report as its consumer sees it.  The strategy report is rendered with
// Report.WriteToWriter (one Value() per column per date, in lock-step, the way the template does) and every rendered row is
// compared with the values obtained by draining the date axis and the columns of a second, identical report independently.
// Snapshot dates are local midnights of a fixed zone <zoneSeconds> east of UTC.

import (
	"bytes"
	"fmt"
	"math"
	"reflect"
	"strconv"
	"strings"
	"sync"
	"time"

	"github.com/cinar/indicator/v2/asset"
	"github.com/cinar/indicator/v2/helper"
)

func zonedSnapshots(env [][]float64, zoneSeconds int) []*asset.Snapshot {
	snaps := makeSnapshots(env)
	if zoneSeconds != 0 {
		loc := time.FixedZone("z", zoneSeconds)
		for i, s := range snaps {
			s.Date = time.Date(2020, 1, 1+i, 0, 0, 0, 0, loc)
		}
	}
	return snaps
}

func runReportWriter(a []string) (result string) {
	defer func() {
		if r := recover(); r != nil {
			result = fmt.Sprintf("panic %v", r)
		}
	}()
	if len(a) != 5 {
		return "ERR bad-command"
	}
	n, err1 := parseInts(a[1])
	f, err2 := parseFloats(a[2])
	env, err3 := parseStreams(a[3])
	zone, err4 := strconv.Atoi(a[4])
	if err1 != nil || err2 != nil || err3 != nil || err4 != nil {
		return "ERR parse"
	}
	// run 1: independent drains (raw values)
	s1, e := reportStrategy(a[0], n, f)
	if s1 == nil {
		return e
	}
	snaps := zonedSnapshots(env, zone)
	rep := s1.Report(helper.SliceToChan(snaps))
	var dates []time.Time
	raw := make([][]reflect.Value, len(rep.Columns))
	var wg sync.WaitGroup
	wg.Add(1)
	go func() {
		defer wg.Done()
		for d := range rep.Date {
			dates = append(dates, d)
		}
	}()
	for i, c := range rep.Columns {
		ch, ok := columnChannel(c)
		if !ok {
			return "ERR column-without-values-field"
		}
		wg.Add(1)
		go func(i int, ch reflect.Value) {
			defer wg.Done()
			for {
				v, ok := ch.Recv()
				if !ok {
					return
				}
				raw[i] = append(raw[i], v)
			}
		}(i, ch)
	}
	fin := make(chan struct{})
	go func() { wg.Wait(); close(fin) }()
	select {
	case <-fin:
	case <-time.After(curTimeout()):
		noteTimeout()
		return "timeout independent-drain"
	}
	// run 2: the writer
	s2, _ := reportStrategy(a[0], n, f)
	rep2 := s2.Report(helper.SliceToChan(zonedSnapshots(env, zone)))
	var buf bytes.Buffer
	werr := make(chan error, 1)
	go func() { werr <- rep2.WriteToWriter(&buf) }()
	select {
	case err := <-werr:
		if err != nil {
			return "ok writer-error " + strings.ReplaceAll(err.Error(), " ", "_")
		}
	case <-time.After(curTimeout()):
		noteTimeout()
		return "ok writer-hang rows-expected=" + strconv.Itoa(len(dates))
	}
	// parse the rendered rows
	var rows [][]string
	var cur []string
	in := false
	for _, line := range strings.Split(buf.String(), "\n") {
		t := strings.TrimSpace(line)
		switch {
		case strings.HasPrefix(t, "data.addRow(["):
			in, cur = true, nil
		case in && strings.HasPrefix(t, "]);"):
			rows = append(rows, cur)
			in = false
		case in && t != "":
			cur = append(cur, strings.TrimSuffix(t, ","))
		}
	}
	if len(rows) != len(dates) {
		return fmt.Sprintf("ok diff rows=%d dates=%d", len(rows), len(dates))
	}
	first := len(snaps) - len(dates)
	for k, row := range rows {
		if len(row) != 1+len(rep.Columns) {
			return fmt.Sprintf("ok diff row=%d cells=%d columns=%d", k, len(row)-1, len(rep.Columns))
		}
		if first >= 0 && first+k < len(snaps) {
			// independent of the report's own DateFormat: the cell must be a date literal the page's script can read
			// and it must denote the snapshot's calendar day
			if !rendersDay(row[0], snaps[first+k].Date) {
				return fmt.Sprintf("ok diff row=%d date=%s snapshot-date=%s", k, strings.ReplaceAll(row[0], " ", "_"), snaps[first+k].Date.Format("2006-01-02"))
			}
		}
		for j := range rep.Columns {
			if k >= len(raw[j]) {
				continue // a column shorter than the date axis: reported by the REPORT run
			}
			cell, v := row[1+j], raw[j][k]
			switch v.Kind() {
			case reflect.Float64, reflect.Float32:
				g, err := strconv.ParseFloat(cell, 64)
				w := v.Float()
				if err != nil || !(g == w || (math.IsNaN(g) && math.IsNaN(w))) {
					return fmt.Sprintf("ok diff row=%d column=%d rendered=%s value=%v", k, j, strings.ReplaceAll(cell, " ", "_"), w)
				}
			case reflect.String:
				want := "null"
				if v.String() != "" {
					want = fmt.Sprintf("%q", v.String())
				}
				if cell != want {
					return fmt.Sprintf("ok diff row=%d column=%d rendered=%s value=%s", k, j, strings.ReplaceAll(cell, " ", "_"), want)
				}
			}
		}
	}
	return fmt.Sprintf("ok writer rows=%d", len(rows))
}

// WRITERS <k>: k reports (one strategy instance, and k different ones) are rendered at the same time, as the very first
// reports this process writes — whatever the writer initialises lazily is initialised under contention (race build).
func runWriters(a []string) (result string) {
	defer func() {
		if r := recover(); r != nil {
			result = fmt.Sprintf("panic %v", r)
		}
	}()
	k, _ := strconv.Atoi(a[0])
	if k < 2 {
		k = 2
	}
	names := []string{"Macd", "Rsi", "Bop", "Trix", "Vwma", "Kdj"}
	shared, _ := reportStrategy("Macd", defaultNs["Macd"], nil)
	var wg sync.WaitGroup
	lens := make([]int, 2*k)
	for i := 0; i < 2*k; i++ {
		wg.Add(1)
		go func(i int) {
			defer wg.Done()
			s := shared
			if i >= k {
				nm := names[i%len(names)]
				s, _ = reportStrategy(nm, defaultNs[nm], defaultFs[nm])
			}
			env := make([][]float64, 5)
			for j := range env {
				for t := 0; t < 30+i; t++ {
					env[j] = append(env[j], 100+float64((t*7+j*3+i)%11))
				}
			}
			var buf bytes.Buffer
			if err := s.Report(helper.SliceToChan(makeSnapshots(env))).WriteToWriter(&buf); err == nil {
				lens[i] = strings.Count(buf.String(), "data.addRow([")
			}
		}(i)
	}
	done := make(chan struct{})
	go func() { wg.Wait(); close(done) }()
	select {
	case <-done:
	case <-time.After(curTimeout()):
		noteTimeout()
		return "timeout"
	}
	for i, n := range lens {
		if n == 0 {
			return fmt.Sprintf("ok diff writer %d rendered no rows", i)
		}
	}
	return fmt.Sprintf("ok writers=%d", 2*k)
}

func init() {
	extraHandlers["WRITERS"] = runWriters
	extraHandlers["REPORTW"] = runReportWriter
}

// jsDateLayouts are date formats that `new Date("…")` reads as the calendar day they spell
var jsDateLayouts = []string{"2006-01-02", time.RFC3339, "2006-01-02T15:04:05", "2006/01/02", "01/02/2006", "Jan 2, 2006", "January 2, 2006", "2 Jan 2006", "Mon Jan 2 2006", "Mon, 02 Jan 2006"}

// rendersDay: cell is `new Date("<text>")` and <text> spells the calendar day of d (in d's own zone)
func rendersDay(cell string, d time.Time) bool {
	if !strings.HasPrefix(cell, "new Date(\"") || !strings.HasSuffix(cell, "\")") {
		return false
	}
	text := cell[len("new Date(\"") : len(cell)-2]
	for _, l := range jsDateLayouts {
		if t, err := time.Parse(l, text); err == nil {
			y, m, dd := t.Date()
			y2, m2, d2 := d.Date()
			if y == y2 && m == m2 && dd == d2 {
				return true
			}
		}
	}
	return false
}
