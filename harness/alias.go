package main

// ALIAS <streams>: instances handed out by the library (registry functions, default constructors) are independent objects.
// Three generations of every registry are built.  Generation 2 is run first (reference).  Every exported numeric field
// reachable from generation 1 is then overwritten IN PLACE (through the pointers the library handed out), generation 3 is
// built after that, and generations 2 and 3 must still behave like the reference: a sub-object shared between instances
// (a package-level default, a cached indicator) would carry the overwritten configuration across.

import (
	"fmt"
	"reflect"
	"strings"

	"github.com/cinar/indicator/v2/strategy"
	"github.com/cinar/indicator/v2/strategy/compound"
	smom "github.com/cinar/indicator/v2/strategy/momentum"
	strend "github.com/cinar/indicator/v2/strategy/trend"
	svola "github.com/cinar/indicator/v2/strategy/volatility"
	svolu "github.com/cinar/indicator/v2/strategy/volume"
)

func aliasGeneration() []strategy.Strategy {
	var l []strategy.Strategy
	l = append(l, strend.AllStrategies()...)
	l = append(l, smom.AllStrategies()...)
	l = append(l, svola.AllStrategies()...)
	l = append(l, svolu.AllStrategies()...)
	l = append(l, compound.AllStrategies()...)
	l = append(l, strategy.AllStrategies()...)
	l = append(l, strend.NewEnvelopeStrategy())
	return l
}

// scramble overwrites every exported int / float field reachable from v (through pointers, interfaces and structs)
func scramble(v reflect.Value, depth int, seen map[uintptr]bool) {
	if depth > 24 || !v.IsValid() {
		return
	}
	switch v.Kind() {
	case reflect.Ptr:
		if v.IsNil() || seen[v.Pointer()] {
			return
		}
		seen[v.Pointer()] = true
		scramble(v.Elem(), depth+1, seen)
	case reflect.Interface:
		if !v.IsNil() {
			scramble(v.Elem(), depth+1, seen)
		}
	case reflect.Struct:
		for i := 0; i < v.NumField(); i++ {
			if v.Type().Field(i).PkgPath != "" {
				continue // unexported
			}
			scramble(v.Field(i), depth+1, seen)
		}
	case reflect.Slice:
		for i := 0; i < v.Len(); i++ {
			scramble(v.Index(i), depth+1, seen)
		}
	case reflect.Int, reflect.Int64, reflect.Int32:
		if v.CanSet() {
			v.SetInt(v.Int() + 3)
		}
	case reflect.Float64, reflect.Float32:
		if v.CanSet() {
			v.SetFloat(v.Float()*1.5 + 1)
		}
	}
}

func runAlias(a []string) (result string) {
	defer func() {
		if r := recover(); r != nil {
			result = fmt.Sprintf("panic %v", r)
		}
	}()
	if len(a) != 1 {
		return "ERR bad-command"
	}
	env, err := parseStreams(a[0])
	if err != nil {
		return "ERR parse"
	}
	runOne := func(s strategy.Strategy) string {
		prod := newProducer(makeSnapshots(env), inputCap)
		res, ok := drainAll([]<-chan strategy.Action{s.Compute(prod.c)}, caseTimeout)
		if !ok {
			close(prod.stop)
			return "timeout"
		}
		prod.settle()
		return showInts(actionsToInts(res[0]))
	}
	g1, g2 := aliasGeneration(), aliasGeneration()
	ref := make([]string, len(g2))
	for i, s := range g2 {
		ref[i] = runOne(s)
	}
	seen := map[uintptr]bool{}
	for _, s := range g1 {
		scramble(reflect.ValueOf(s), 0, seen)
	}
	g3 := aliasGeneration()
	if len(g3) != len(g2) {
		return fmt.Sprintf("ok differ registry-size %d!=%d", len(g3), len(g2))
	}
	for i := range g2 {
		for gen, s := range []strategy.Strategy{g2[i], g3[i]} {
			if got := runOne(s); got != ref[i] {
				return fmt.Sprintf("ok differ index=%d name=%s generation=%d got=%s want=%s", i, strings.ReplaceAll(g2[i].Name(), " ", "_"), gen+2, got, ref[i])
			}
		}
	}
	return fmt.Sprintf("ok independent instances=%d", len(g2))
}

func init() {
	extraHandlers["ALIAS"] = runAlias
}
