package main

// Base strategies (STRAT) and combinators / decorators over scripted stub strategies (TREE).

import (
	"fmt"
	"math"
	"strconv"
	"strings"
	"time"

	"github.com/cinar/indicator/v2/asset"
	"github.com/cinar/indicator/v2/helper"
	"github.com/cinar/indicator/v2/momentum"
	"github.com/cinar/indicator/v2/strategy"
	"github.com/cinar/indicator/v2/strategy/decorator"
	smomentum "github.com/cinar/indicator/v2/strategy/momentum"
	strend "github.com/cinar/indicator/v2/strategy/trend"
	svolatility "github.com/cinar/indicator/v2/strategy/volatility"
	svolume "github.com/cinar/indicator/v2/strategy/volume"
	"github.com/cinar/indicator/v2/trend"
	"github.com/cinar/indicator/v2/volatility"
)

type stratCtor func(n []int, f []float64) strategy.Strategy

var strategies = map[string]stratCtor{
	"Alligator": func(n []int, f []float64) strategy.Strategy { return strend.NewAlligatorStrategyWith(n[0], n[1], n[2]) },
	"Apo": func(n []int, f []float64) strategy.Strategy {
		s := strend.NewApoStrategy()
		s.Apo.FastPeriod, s.Apo.SlowPeriod = n[0], n[1]
		return s
	},
	"Aroon": func(n []int, f []float64) strategy.Strategy {
		s := strend.NewAroonStrategy()
		s.Aroon.Period = n[0]
		return s
	},
	"Bop": func(n []int, f []float64) strategy.Strategy { return strend.NewBopStrategy() },
	"Cci": func(n []int, f []float64) strategy.Strategy {
		s := strend.NewCciStrategy()
		s.Cci.Period = n[0]
		return s
	},
	"Dema": func(n []int, f []float64) strategy.Strategy {
		s := strend.NewDemaStrategy()
		s.Dema1.Ema1.Period, s.Dema1.Ema2.Period = n[0], n[0]
		s.Dema2.Ema1.Period, s.Dema2.Ema2.Period = n[1], n[1]
		if len(n) >= 4 { // distinct periods for the second EMA of each DEMA
			s.Dema1.Ema2.Period, s.Dema2.Ema2.Period = n[2], n[3]
		}
		return s
	},
	"Envelope": func(n []int, f []float64) strategy.Strategy {
		return strend.NewEnvelopeStrategyWith(trend.NewEnvelope[float64](maOf(n[0], n[1]), f[0]))
	},
	"GoldenCross": func(n []int, f []float64) strategy.Strategy { return strend.NewGoldenCrossStrategyWith(n[0], n[1]) },
	"Kama":        func(n []int, f []float64) strategy.Strategy { return strend.NewKamaStrategyWith(n[0], n[1], n[2]) },
	"Kdj": func(n []int, f []float64) strategy.Strategy {
		s := strend.NewKdjStrategy()
		s.Kdj.MovingMax.Period, s.Kdj.MovingMin.Period, s.Kdj.Sma1.Period, s.Kdj.Sma2.Period = n[0], n[0], n[1], n[2]
		return s
	},
	"Macd": func(n []int, f []float64) strategy.Strategy { return strend.NewMacdStrategyWith(n[0], n[1], n[2]) },
	"Qstick": func(n []int, f []float64) strategy.Strategy {
		s := strend.NewQstickStrategy()
		s.Qstick.Sma.Period = n[0]
		return s
	},
	"Smma": func(n []int, f []float64) strategy.Strategy { return strend.NewSmmaStrategyWith(n[0], n[1]) },
	"Trima": func(n []int, f []float64) strategy.Strategy {
		s := strend.NewTrimaStrategy()
		s.Short.Period, s.Long.Period = n[0], n[1]
		return s
	},
	"TripleMovingAverageCrossover": func(n []int, f []float64) strategy.Strategy {
		return strend.NewTripleMovingAverageCrossoverStrategyWith(n[0], n[1], n[2])
	},
	"Trix": func(n []int, f []float64) strategy.Strategy {
		s := strend.NewTrixStrategy()
		s.Trix.Period = n[0]
		return s
	},
	"Tsi": func(n []int, f []float64) strategy.Strategy { return strend.NewTsiStrategyWith(n[0], n[1], n[2]) },
	"Vwma": func(n []int, f []float64) strategy.Strategy {
		s := strend.NewVwmaStrategy()
		s.Vwma.Period, s.Sma.Period = n[0], n[0]
		return s
	},
	// the two moving averages of the VWMA strategy configured separately (two exported fields)
	"VwmaG": func(n []int, f []float64) strategy.Strategy {
		s := strend.NewVwmaStrategy()
		s.Sma.Period, s.Vwma.Period = n[0], n[1]
		return s
	},
	"WeightedClose": func(n []int, f []float64) strategy.Strategy { return strend.NewWeightedCloseStrategyWith(n[0]) },
	"AwesomeOscillator": func(n []int, f []float64) strategy.Strategy {
		s := smomentum.NewAwesomeOscillatorStrategy()
		s.AwesomeOscillator.ShortSma.Period, s.AwesomeOscillator.LongSma.Period = n[0], n[1]
		return s
	},
	"Rsi": func(n []int, f []float64) strategy.Strategy {
		s := smomentum.NewRsiStrategyWith(f[0], f[1])
		s.Rsi = momentum.NewRsiWithPeriod[float64](n[0])
		return s
	},
	"StochasticRsi": func(n []int, f []float64) strategy.Strategy {
		s := smomentum.NewStochasticRsiStrategyWith(f[0], f[1])
		s.StochasticRsi = momentum.NewStochasticRsiWithPeriod[float64](n[0])
		return s
	},
	"TripleRsi": func(n []int, f []float64) strategy.Strategy {
		return smomentum.NewTripleRsiStrategyWith(n[0], n[1], n[2], f[0], f[1], f[2])
	},
	"BollingerBands": func(n []int, f []float64) strategy.Strategy {
		s := svolatility.NewBollingerBandsStrategy()
		s.BollingerBands.Period = n[0]
		return s
	},
	"SuperTrend": func(n []int, f []float64) strategy.Strategy {
		return svolatility.NewSuperTrendStrategyWith(volatility.NewSuperTrendWithMa[float64](maOf(n[0], n[1]), f[0]))
	},
	"ChaikinMoneyFlow": func(n []int, f []float64) strategy.Strategy { return svolume.NewChaikinMoneyFlowStrategyWith(n[0]) },
	"EaseOfMovement":   func(n []int, f []float64) strategy.Strategy { return svolume.NewEaseOfMovementStrategyWith(n[0]) },
	"ForceIndex":       func(n []int, f []float64) strategy.Strategy { return svolume.NewForceIndexStrategyWith(n[0]) },
	"MoneyFlowIndex": func(n []int, f []float64) strategy.Strategy {
		s := svolume.NewMoneyFlowIndexStrategyWith(f[0], f[1])
		s.MoneyFlowIndex.Sum.Period = n[0]
		return s
	},
	"NegativeVolumeIndex": func(n []int, f []float64) strategy.Strategy {
		s := svolume.NewNegativeVolumeIndexStrategyWith(n[0])
		s.NegativeVolumeIndex.Initial = f[0]
		return s
	},
	"WeightedAveragePrice": func(n []int, f []float64) strategy.Strategy { return svolume.NewWeightedAveragePriceStrategyWith(n[0]) },
	"BuyAndHold":           func(n []int, f []float64) strategy.Strategy { return strategy.NewBuyAndHoldStrategy() },
}

var day0 = time.Date(2020, 1, 1, 0, 0, 0, 0, time.UTC)

func makeSnapshots(env [][]float64) []*asset.Snapshot {
	n := 0
	if len(env) > 0 {
		n = len(env[0])
	}
	out := make([]*asset.Snapshot, n)
	for i := 0; i < n; i++ {
		s := &asset.Snapshot{Date: day0.AddDate(0, 0, i)}
		get := func(k int) float64 {
			if k < len(env) && i < len(env[k]) {
				return env[k][i]
			}
			return 0
		}
		s.Open, s.High, s.Low, s.Close, s.Volume = get(0), get(1), get(2), get(3), get(4)
		out[i] = s
	}
	return out
}

func actionsToInts(as []strategy.Action) []int {
	out := make([]int, len(as))
	for i, a := range as {
		out[i] = int(a)
	}
	return out
}

func runStrat(name, ns, fs, streams string) (result string) {
	defer func() {
		if r := recover(); r != nil {
			result = fmt.Sprintf("panic %v", r)
		}
	}()
	n, err1 := parseInts(ns)
	f, err2 := parseFloats(fs)
	env, err3 := parseStreams(streams)
	if err1 != nil || err2 != nil || err3 != nil {
		return "ERR parse"
	}
	s, errS := reportStrategy(name, n, f)
	if s == nil {
		return errS
	}
	prod := newProducer(makeSnapshots(env), inputCap)
	res, ok := drainAll([]<-chan strategy.Action{s.Compute(prod.c)}, caseTimeout)
	if !ok {
		close(prod.stop)
		return "timeout"
	}
	consumed := prod.settle()
	return fmt.Sprintf("ok consumed=%d | %s", consumed, showInts(actionsToInts(res[0])))
}

// stub strategy: replays a scripted action word, whatever the snapshots are
type stubStrategy struct {
	name string
	word []strategy.Action
}

func (s *stubStrategy) Name() string { return s.name }
func (s *stubStrategy) Compute(snapshots <-chan *asset.Snapshot) <-chan strategy.Action {
	out := make(chan strategy.Action)
	go helper.Drain(snapshots)
	go func() {
		defer close(out)
		for _, a := range s.word {
			out <- a
		}
	}()
	return out
}
func (s *stubStrategy) Report(c <-chan *asset.Snapshot) *helper.Report { return nil }

// transform: a pure stream function wrapped as a strategy (Normalize / Denormalize / MACD-RSI agreement)
type fnStrategy struct {
	inner []strategy.Strategy
	fn    func(snaps <-chan *asset.Snapshot, inner []strategy.Strategy) <-chan strategy.Action
}

func (s *fnStrategy) Name() string { return "fn" }
func (s *fnStrategy) Compute(snapshots <-chan *asset.Snapshot) <-chan strategy.Action {
	return s.fn(snapshots, s.inner)
}
func (s *fnStrategy) Report(c <-chan *asset.Snapshot) *helper.Report { return nil }

func runTree(prog, words, closings string) (result string) {
	defer func() {
		if r := recover(); r != nil {
			result = fmt.Sprintf("panic %v", r)
		}
	}()
	ws, err1 := parseIntStreams(words)
	cl, err2 := parseFloats(closings)
	if err1 != nil || err2 != nil {
		return "ERR parse"
	}
	var stack []strategy.Strategy
	pop := func(k int) []strategy.Strategy {
		args := append([]strategy.Strategy(nil), stack[len(stack)-k:]...)
		stack = stack[:len(stack)-k]
		return args
	}
	for _, tok := range strings.Split(prog, ",") {
		f := strings.Split(tok, ":")
		switch f[0] {
		case "w":
			i, _ := strconv.Atoi(f[1])
			word := make([]strategy.Action, len(ws[i]))
			for j, v := range ws[i] {
				word[j] = strategy.Action(v)
			}
			stack = append(stack, &stubStrategy{name: fmt.Sprintf("w%d", i), word: word})
		case "And":
			k, _ := strconv.Atoi(f[1])
			stack = append(stack, strategy.NewAndStrategy("and", pop(k)...))
		case "Or":
			k, _ := strconv.Atoi(f[1])
			stack = append(stack, strategy.NewOrStrategy("or", pop(k)...))
		case "Majority":
			k, _ := strconv.Atoi(f[1])
			stack = append(stack, strategy.NewMajorityStrategyWith("maj", pop(k)))
		case "Split":
			a := pop(2)
			stack = append(stack, strategy.NewSplitStrategy(a[0], a[1]))
		case "Agree":
			a := pop(2)
			// the body of compound.MacdRsiStrategy.Compute with arbitrary inner strategies
			stack = append(stack, &fnStrategy{inner: a, fn: func(snaps <-chan *asset.Snapshot, in []strategy.Strategy) <-chan strategy.Action {
				sp := helper.Duplicate(snaps, 2)
				x := strategy.DenormalizeActions(in[0].Compute(sp[0]))
				y := strategy.DenormalizeActions(in[1].Compute(sp[1]))
				return helper.Operate(x, y, func(a, b strategy.Action) strategy.Action {
					if a == b {
						return a
					}
					return strategy.Hold
				})
			}})
		case "Inverse":
			stack = append(stack, decorator.NewInverseStrategy(pop(1)[0]))
		case "NoLoss":
			stack = append(stack, decorator.NewNoLossStrategy(pop(1)[0]))
		case "StopLoss":
			pct, _ := floatOfHex(f[1])
			stack = append(stack, decorator.NewStopLossStrategy(pop(1)[0], pct))
		case "Normalize":
			stack = append(stack, &fnStrategy{inner: pop(1), fn: func(snaps <-chan *asset.Snapshot, in []strategy.Strategy) <-chan strategy.Action {
				return strategy.NormalizeActions(in[0].Compute(snaps))
			}})
		case "Denormalize":
			stack = append(stack, &fnStrategy{inner: pop(1), fn: func(snaps <-chan *asset.Snapshot, in []strategy.Strategy) <-chan strategy.Action {
				return strategy.DenormalizeActions(in[0].Compute(snaps))
			}})
		default:
			return "ERR bad-program"
		}
	}
	if len(stack) != 1 {
		return "ERR bad-program"
	}
	top := stack[0]
	snaps := makeSnapshots([][]float64{cl, cl, cl, cl, cl})
	// actions, outcome and transaction count through the library's own plumbing
	prod := newProducer(snaps, inputCap)
	actions, outcomes := strategy.ComputeWithOutcome(top, prod.c)
	acts := helper.Duplicate(actions, 2)
	tx := strategy.CountTransactions(acts[1])
	var gotA []strategy.Action
	var gotO []float64
	var gotT []int
	done := make(chan struct{}, 3)
	go func() { gotA = helper.ChanToSlice(acts[0]); done <- struct{}{} }()
	go func() { gotO = helper.ChanToSlice(outcomes); done <- struct{}{} }()
	go func() { gotT = helper.ChanToSlice(tx); done <- struct{}{} }()
	for i := 0; i < 3; i++ {
		select {
		case <-done:
		case <-time.After(curTimeout()):
		noteTimeout()
			close(prod.stop)
			return "timeout"
		}
	}
	return fmt.Sprintf("ok %s | %s | %s", showInts(actionsToInts(gotA)), showFloats(gotO), showInts(gotT))
}

func init() {
	extraHandlers["STRAT"] = func(a []string) string {
		if len(a) != 4 {
			return "ERR bad-command"
		}
		return runStrat(a[0], a[1], a[2], a[3])
	}
	extraHandlers["TREE"] = func(a []string) string {
		if len(a) != 3 {
			return "ERR bad-command"
		}
		return runTree(a[0], a[1], a[2])
	}
}

// OUTINT word values: strategy.Outcome over integer element types must equal Outcome over the same values as float64
func outcomeOver[T helper.Number](vals []int, word []strategy.Action) []float64 {
	vs := make([]T, len(vals))
	for i, v := range vals {
		vs[i] = T(v)
	}
	return helper.ChanToSlice(strategy.Outcome(helper.SliceToChan(vs), helper.SliceToChan(word)))
}

func runOutcomeInt(a []string) (result string) {
	defer func() {
		if r := recover(); r != nil {
			result = fmt.Sprintf("panic %v", r)
		}
	}()
	ws, err1 := parseInts(a[0])
	vals, err2 := parseInts(a[1])
	if err1 != nil || err2 != nil {
		return "ERR parse"
	}
	word := make([]strategy.Action, len(ws))
	for i, v := range ws {
		word[i] = strategy.Action(v)
	}
	done := make(chan string, 1)
	go func() {
		ref := outcomeOver[float64](vals, word)
		for name, got := range map[string][]float64{"int": outcomeOver[int](vals, word), "int64": outcomeOver[int64](vals, word),
			"int32": outcomeOver[int32](vals, word), "float32": outcomeOver[float32](vals, word)} {
			if len(got) != len(ref) {
				done <- fmt.Sprintf("diff %s length %d != %d", name, len(got), len(ref))
				return
			}
			for i := range ref {
				if math.Float64bits(got[i]) != math.Float64bits(ref[i]) {
					done <- fmt.Sprintf("diff %s index %d %v != %v", name, i, got[i], ref[i])
					return
				}
			}
		}
		done <- "ok " + showFloats(ref)
	}()
	select {
	case r := <-done:
		return r
	case <-time.After(curTimeout()):
		noteTimeout()
		return "timeout"
	}
}

func init() {
	extraHandlers["OUTINT"] = func(a []string) string {
		if len(a) != 2 {
			return "ERR bad-command"
		}
		return runOutcomeInt(a)
	}
}
