package main

// CTORALT <id> <streams>: the constructors the rest of the harness never calls (default constructors, convenience variants).
// The value they return replaces, wholesale, the value inside a harness-built instance of the same indicator, whose Compute
// closure is then run; the check compares the result with the catalog entry configured with the documented defaults.

import (
	"fmt"
	"reflect"
	"time"

	"github.com/cinar/indicator/v2/momentum"
	"github.com/cinar/indicator/v2/trend"
	"github.com/cinar/indicator/v2/volatility"
	"github.com/cinar/indicator/v2/volume"
)

type altCtor struct {
	name  string // catalog name
	ns    []int  // any admissible configuration for building the carrier instance
	fs    []float64
	build func() any
}

var altCtors = map[string]altCtor{
	"NewAtr":                  {"Atr", []int{0, 3}, nil, func() any { return volatility.NewAtr[float64]() }},
	"NewAtrWithPeriod7":       {"Atr", []int{0, 3}, nil, func() any { return volatility.NewAtrWithPeriod[float64](7) }},
	"NewBollingerBands":       {"BollingerBands", []int{3}, nil, func() any { return volatility.NewBollingerBands[float64]() }},
	"NewCci":                  {"Cci", []int{3}, nil, func() any { return trend.NewCci[float64]() }},
	"NewCmf":                  {"Cmf", []int{3}, nil, func() any { return volume.NewCmf[float64]() }},
	"NewDonchianChannel":      {"DonchianChannel", []int{3}, nil, func() any { return volatility.NewDonchianChannel[float64]() }},
	"NewEma":                  {"Ema", []int{3}, nil, func() any { return trend.NewEma[float64]() }},
	"NewEmv":                  {"Emv", []int{3}, nil, func() any { return volume.NewEmv[float64]() }},
	"NewEnvelopeWithEma":      {"Envelope", []int{1, 3}, []float64{5}, func() any { return trend.NewEnvelopeWithEma[float64]() }},
	"NewEnvelopeWithSma":      {"Envelope", []int{0, 3}, []float64{5}, func() any { return trend.NewEnvelopeWithSma[float64]() }},
	"NewFi":                   {"Fi", []int{3}, nil, func() any { return volume.NewFi[float64]() }},
	"NewKama":                 {"Kama", []int{3, 2, 5}, nil, func() any { return trend.NewKama[float64]() }},
	"NewMacd":                 {"Macd", []int{2, 3, 2}, nil, func() any { return trend.NewMacd[float64]() }},
	"NewMovingMax":            {"MovingMax", []int{3}, nil, func() any { return trend.NewMovingMax[float64]() }},
	"NewMovingMin":            {"MovingMin", []int{3}, nil, func() any { return trend.NewMovingMin[float64]() }},
	"NewMovingStd":            {"MovingStd", []int{3}, nil, func() any { return volatility.NewMovingStd[float64]() }},
	"NewMovingSum":            {"MovingSum", []int{3}, nil, func() any { return trend.NewMovingSum[float64]() }},
	"NewPercentB":             {"PercentB", []int{3}, nil, func() any { return volatility.NewPercentB[float64]() }},
	"NewPo":                   {"Po", []int{3}, nil, func() any { return volatility.NewPo[float64]() }},
	"NewRma":                  {"Rma", []int{3}, nil, func() any { return trend.NewRma[float64]() }},
	"NewRsi":                  {"Rsi", []int{3}, nil, func() any { return momentum.NewRsi[float64]() }},
	"NewSma":                  {"Sma", []int{3}, nil, func() any { return trend.NewSma[float64]() }},
	"NewSmma":                 {"Smma", []int{3}, nil, func() any { return trend.NewSmma[float64]() }},
	"NewStochasticRsi":        {"StochasticRsi", []int{3}, nil, func() any { return momentum.NewStochasticRsi[float64]() }},
	"NewSuperTrend":           {"SuperTrend", []int{0, 3}, []float64{1}, func() any { return volatility.NewSuperTrend[float64]() }},
	"NewSuperTrendWithPeriod": {"SuperTrend", []int{0, 3}, []float64{1}, func() any { return volatility.NewSuperTrendWithPeriod[float64](6, 1.5) }},
	"NewTsi":                  {"Tsi", []int{3, 2}, nil, func() any { return trend.NewTsi[float64]() }},
	"NewVwap":                 {"Vwap", []int{3}, nil, func() any { return volume.NewVwap[float64]() }},
}

func runCtorAlt(a []string) (result string) {
	defer func() {
		if r := recover(); r != nil {
			result = fmt.Sprintf("panic %v", r)
		}
	}()
	if len(a) != 2 {
		return "ERR bad-command"
	}
	alt, ok := altCtors[a[0]]
	if !ok {
		return "ERR unknown-constructor"
	}
	env, err := parseStreams(a[1])
	if err != nil {
		return "ERR parse"
	}
	reconfMu.Lock()
	inst := indCtors[alt.name](alt.ns, alt.fs)
	carrier := tracked
	reconfMu.Unlock()
	y := alt.build()
	vc, vy := reflect.ValueOf(carrier), reflect.ValueOf(y)
	if vc.Kind() != reflect.Ptr || vy.Kind() != reflect.Ptr || vc.Type() != vy.Type() {
		return fmt.Sprintf("ERR constructor returns %s, catalog entry is %s", vy.Type(), vc.Type())
	}
	vc.Elem().Set(vy.Elem())
	r := &obsRun{}
	if e := startPipeline(r, "IND", alt.name, alt.ns, alt.fs, env, 0, pacing{0}, inst, nil); e != "" {
		return e
	}
	verdict, detail := r.wait(20 * time.Second)
	if verdict != "ok" {
		return verdict + ":" + detail
	}
	return "ok " + showOuts(r.outs())
}

func init() {
	extraHandlers["CTORALT"] = runCtorAlt
}
