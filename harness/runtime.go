package main

// Runtime behaviour of pipelines (C03, C09): schedules, pacing, capacities, deadlock verdict by
// goroutine census, leak census, instance reuse (sequential and concurrent).

import (
	"fmt"
	"math/rand"
	"reflect"
	"regexp"
	"runtime"
	"sort"
	"strconv"
	"strings"
	"sync"
	"sync/atomic"
	"time"

	"github.com/cinar/indicator/v2/asset"
	"github.com/cinar/indicator/v2/helper"
	"github.com/cinar/indicator/v2/strategy"
	"github.com/cinar/indicator/v2/trend"
)

// ---------------------------------------------------------------- pacing

type pacing struct {
	mode int
}

// pacer returns the function a producer (role 0) or consumer (role 1) calls before every channel operation
// and the delay before its first operation.
func (p pacing) pacer(role, idx, total int) (func(), time.Duration) {
	switch p.mode {
	case 1:
		return runtime.Gosched, 0
	case 2:
		if role == 0 {
			return func() { time.Sleep(20 * time.Microsecond) }, 0
		}
	case 3:
		if role == 1 {
			return func() { time.Sleep(20 * time.Microsecond) }, 0
		}
	case 4:
		if role == 1 && idx == total-1 {
			return func() {}, 3 * time.Millisecond
		}
	case 5:
		r := rand.New(rand.NewSource(int64(role*1000 + idx + 7)))
		return func() {
			switch r.Intn(3) {
			case 0:
				time.Sleep(time.Duration(r.Intn(40)) * time.Microsecond)
			case 1:
				runtime.Gosched()
			}
		}, 0
	case 6:
		if role == 1 && idx == 0 {
			return func() {}, 3 * time.Millisecond
		}
	case 7:
		if role == 1 {
			k := 0
			return func() {
				k++
				if k%8 == 0 {
					time.Sleep(500 * time.Microsecond)
				}
			}, 0
		}
	case 8:
		if role == 0 {
			return func() {}, 3 * time.Millisecond
		}
	}
	return func() {}, 0
}

// ---------------------------------------------------------------- a run under observation

type obsRun struct {
	progress atomic.Int64
	runaway  atomic.Bool
	wg       sync.WaitGroup
	sent     []*atomic.Int64
	res      []*[]string
	feeding  atomic.Int64 // producers that have not yet delivered everything and closed their channel
}

func feed[T any](r *obsRun, values []T, capacity int, pc pacing, idx, total int) <-chan T {
	c := make(chan T, capacity)
	cnt := &atomic.Int64{}
	r.sent = append(r.sent, cnt)
	pace, delay := pc.pacer(0, idx, total)
	r.feeding.Add(1)
	go func() {
		if delay > 0 {
			time.Sleep(delay)
		}
		for _, v := range values {
			pace()
			c <- v
			cnt.Add(1)
			r.progress.Add(1)
		}
		close(c)
		r.progress.Add(1)
		r.feeding.Add(-1)
	}()
	return c
}

// settleProducers: after every output has been closed the library may still be draining its inputs while the (paced) producers
// deliver the rest; wait until every producer has finished, or until nothing has moved for a full second (then the rest of the
// inputs is really not being consumed and the census that follows says why)
func (r *obsRun) settleProducers() {
	last, lastChange := r.progress.Load(), time.Now()
	for r.feeding.Load() > 0 {
		time.Sleep(2 * time.Millisecond)
		if cur := r.progress.Load(); cur != last {
			last, lastChange = cur, time.Now()
		} else if time.Since(lastChange) > time.Second {
			return
		}
	}
}

func (r *obsRun) drain(recv func() (string, bool), pc pacing, idx, total int) {
	slot := new([]string)
	r.res = append(r.res, slot)
	pace, delay := pc.pacer(1, idx, total)
	r.wg.Add(1)
	go func() {
		defer r.wg.Done()
		if delay > 0 {
			time.Sleep(delay)
		}
		var got []string
		for {
			pace()
			v, ok := recv()
			if !ok {
				break
			}
			got = append(got, v)
			r.progress.Add(1)
			if len(got) > runawayLimit {
				// far more output than any input of the harness can justify: a stream that never ends
				r.runaway.Store(true)
				break
			}
		}
		*slot = got
		r.progress.Add(1)
	}()
}

const runawayLimit = 100000

var goroutineHeader = regexp.MustCompile(`(?m)^goroutine (\d+) \[([^\]]*)\]:`)

type gInfo struct {
	id    string
	state string
	text  string
}

func snapshotGoroutines() []gInfo {
	buf := make([]byte, 1<<20)
	for {
		n := runtime.Stack(buf, true)
		if n < len(buf) {
			buf = buf[:n]
			break
		}
		buf = make([]byte, 2*len(buf))
	}
	var out []gInfo
	for _, blk := range strings.Split(string(buf), "\n\n") {
		m := goroutineHeader.FindStringSubmatch(blk)
		if m == nil {
			continue
		}
		out = append(out, gInfo{id: m[1], state: m[2], text: blk})
	}
	return out
}

func blockedState(st string) bool {
	st = strings.SplitN(st, ",", 2)[0]
	switch st {
	case "chan receive", "chan send", "select", "semacquire", "sync.WaitGroup.Wait", "sync.Mutex.Lock", "sync.Cond.Wait",
		"chan receive (nil chan)", "chan send (nil chan)", "select (no cases)", "sync.RWMutex.Lock", "sync.RWMutex.RLock":
		return true
	}
	return false
}

// libraryFrames: the library functions a goroutine is executing / was created by
var frameRe = regexp.MustCompile(`github\.com/cinar/indicator/v2/([\w/]+)\.([\w\[\]\.\*\(\)·]+)`)

func libFrames(text string) string {
	ms := frameRe.FindAllStringSubmatch(text, -1)
	seen := map[string]bool{}
	var out []string
	for _, m := range ms {
		f := m[1] + "." + m[2]
		f = strings.NewReplacer("[...]", "", "(*", "", ")", "", "·", "").Replace(f)
		if i := strings.Index(f, ".func"); i > 0 {
			f = f[:i]
		}
		if !seen[f] {
			seen[f] = true
			out = append(out, f)
		}
		if len(out) >= 2 {
			break
		}
	}
	return strings.Join(out, "<")
}

// wait observes the run: "ok", "deadlock" (no progress and every other goroutine blocked), "timeout".
func (r *obsRun) wait(hard time.Duration) (string, string) {
	fin := make(chan struct{})
	go func() { r.wg.Wait(); close(fin) }()
	start := time.Now()
	last := r.progress.Load()
	lastChange := time.Now()
	for {
		select {
		case <-fin:
			return "ok", ""
		case <-time.After(2 * time.Millisecond):
		}
		if r.runaway.Load() {
			return "runaway", fmt.Sprintf("an output stream delivered more than %d values", runawayLimit)
		}
		cur := r.progress.Load()
		if cur != last {
			last, lastChange = cur, time.Now()
			continue
		}
		if time.Since(lastChange) > 150*time.Millisecond {
			// two censuses 20 ms apart: every goroutine but this one blocked on a channel/lock, no progress in between
			quiet := true
			var stuck []string
			for round := 0; round < 2 && quiet; round++ {
				stuck = stuck[:0]
				for _, g := range snapshotGoroutines() {
					if strings.HasPrefix(g.state, "running") {
						continue // the monitor itself
					}
					if !blockedState(g.state) {
						quiet = false
						break
					}
					if f := libFrames(g.text); f != "" && !preexisting[g.id] {
						stuck = append(stuck, f+"["+strings.SplitN(g.state, ",", 2)[0]+"]")
					}
				}
				if round == 0 {
					time.Sleep(20 * time.Millisecond)
				}
			}
			if quiet && r.progress.Load() == last {
				sort.Strings(stuck)
				return "deadlock", strings.ReplaceAll(strings.Join(uniq(stuck), ","), " ", "_")
			}
			lastChange = time.Now()
		}
		if time.Since(start) > hard {
			return "timeout", ""
		}
	}
}

func uniq(l []string) []string {
	var out []string
	for i, s := range l {
		if i == 0 || s != l[i-1] {
			out = append(out, s)
		}
	}
	return out
}

// leakCensus waits for the goroutine count to come back to the baseline; returns the library goroutines left
// blocked (a goroutine that is still runnable is given time to finish: only a blocked one is a leak).
func leakCensus(baseline int) (int, string) {
	deadline := time.Now().Add(5 * time.Second)
	fast := time.Now().Add(200 * time.Millisecond)
	prev := ""
	for {
		if runtime.NumGoroutine() <= baseline {
			return 0, ""
		}
		if time.Now().Before(fast) {
			time.Sleep(time.Millisecond)
			continue
		}
		var left []string
		active := false
		for _, g := range snapshotGoroutines() {
			if strings.HasPrefix(g.state, "running") || preexisting[g.id] {
				continue
			}
			f := libFrames(g.text)
			if f == "" {
				continue
			}
			if !blockedState(g.state) {
				active = true
				break
			}
			left = append(left, f+"["+strings.SplitN(g.state, ",", 2)[0]+"]")
		}
		if !active {
			if len(left) == 0 {
				return 0, ""
			}
			sort.Strings(left)
			cur := strings.ReplaceAll(strings.Join(uniq(left), ","), " ", "_")
			if cur == prev {
				return len(left), cur
			}
			prev = cur
		} else {
			prev = ""
		}
		if time.Now().After(deadline) {
			return -1, "census-did-not-settle"
		}
		time.Sleep(30 * time.Millisecond)
	}
}

// goroutines that were already stuck before the case started (left by an earlier deadlocked case)
var preexisting = map[string]bool{}

func markPreexisting() {
	preexisting = map[string]bool{}
	for _, g := range snapshotGoroutines() {
		preexisting[g.id] = true
	}
}

// ---------------------------------------------------------------- building the three kinds of pipeline

func floatRecv(c <-chan float64) func() (string, bool) {
	return func() (string, bool) {
		v, ok := <-c
		if !ok {
			return "", false
		}
		return hexOfFloat(v), true
	}
}

func reflectRecv(ch reflect.Value) func() (string, bool) {
	return func() (string, bool) {
		v, ok := ch.Recv()
		if !ok {
			return "", false
		}
		switch v.Kind() {
		case reflect.Float64, reflect.Float32:
			return hexOfFloat(v.Float()), true
		case reflect.String:
			if v.String() == "" {
				return ".", true
			}
			return v.String(), true
		}
		return fmt.Sprint(v.Interface()), true
	}
}

// startPipeline wires producers, pipeline and independent readers. Returns an error string if the case is malformed.
func startPipeline(r *obsRun, kind, name string, n []int, f []float64, env [][]float64, capacity int, pc pacing,
	inst instFn, strat strategy.Strategy) string {
	switch kind {
	case "IND":
		if inst == nil {
			ctor, ok := indCtors[name]
			if !ok {
				return "ERR unknown-indicator"
			}
			inst = ctor(n, f)
		}
		ins := make([]<-chan float64, len(env))
		for i, s := range env {
			ins[i] = feed(r, s, capacity, pc, i, len(env))
		}
		cs, _ := inst(ins)
		for i, c := range cs {
			r.drain(floatRecv(c), pc, i, len(cs))
		}
	case "NET":
		// the network whose machine model is lean/IndicatorVerif/Model/NetMachines.lean (diamondNet):
		// W = Operate(Operate(a0, b), a1) with a0, a1 = Duplicate(a)
		if name == "change" && len(env) == 2 && len(env[1]) == 2 {
			// helper.Change(c, k) rebuilt from its helpers with a buffer of b instead of k (NetM.changeNet):
			// Subtract(Skip(d1, k), Buffered(d0, b)), d0, d1 = Duplicate(c)
			k, b := int(env[1][0]), int(env[1][1])
			c := feed(r, env[0], capacity, pc, 0, 1)
			d := helper.Duplicate[float64](c, 2)
			w := helper.Subtract(helper.Skip(d[1], k), helper.Buffered(d[0], b))
			r.drain(floatRecv(w), pc, 0, 1)
			break
		}
		if name == "msum" && len(env) == 2 && len(env[1]) == 1 {
			// trend.MovingSum as the library builds it (NetM.msumNet with a Shift buffer of cap + p)
			c := feed(r, env[0], capacity, pc, 0, 1)
			w := trend.NewMovingSumWithPeriod[float64](int(env[1][0])).Compute(c)
			r.drain(floatRecv(w), pc, 0, 1)
			break
		}
		if (name == "wmax" || name == "wmin") && len(env) == 2 && len(env[1]) == 1 {
			// trend.MovingMax / MovingMin as the library builds them (NetM.winNet: the MovingSum network with a search-tree closure)
			c := feed(r, env[0], capacity, pc, 0, 1)
			var w <-chan float64
			if name == "wmax" {
				w = trend.NewMovingMaxWithPeriod[float64](int(env[1][0])).Compute(c)
			} else {
				w = trend.NewMovingMinWithPeriod[float64](int(env[1][0])).Compute(c)
			}
			r.drain(floatRecv(w), pc, 0, 1)
			break
		}
		if name == "sma" && len(env) == 2 && len(env[1]) == 1 {
			// trend.Sma as the library builds it (NetM.smaNet: MovingSum followed by the dividing Apply)
			c := feed(r, env[0], capacity, pc, 0, 1)
			w := trend.NewSmaWithPeriod[float64](int(env[1][0])).Compute(c)
			r.drain(floatRecv(w), pc, 0, 1)
			break
		}
		if name == "ema" && len(env) == 2 && len(env[1]) == 2 {
			// trend.Ema as the library builds it (NetM.recurNet): Head + Sma give the seed, then the goroutine reads c itself.
			// Smoothing = mul*(p+1) makes the multiplier the integer mul, so that the values are exact
			per, mul := int(env[1][0]), env[1][1]
			c := feed(r, env[0], capacity, pc, 0, 1)
			e := trend.NewEmaWithPeriod[float64](per)
			e.Smoothing = mul * float64(per+1)
			w := e.Compute(c)
			r.drain(floatRecv(w), pc, 0, 1)
			break
		}
		if name != "diamond" || len(env) != 2 {
			return "ERR unknown-net"
		}
		a := feed(r, env[0], capacity, pc, 0, 2)
		b := feed(r, env[1], capacity, pc, 1, 2)
		d := helper.Duplicate[float64](a, 2)
		w := helper.Add(helper.Add(d[0], b), d[1])
		r.drain(floatRecv(w), pc, 0, 1)
	case "STRAT", "OUTCOME", "REPORT":
		if strat == nil {
			var e string
			strat, e = reportStrategy(name, n, f)
			if strat == nil {
				return e
			}
		}
		snaps := feed(r, makeSnapshots(env), capacity, pc, 0, 1)
		switch kind {
		case "STRAT":
			ac := strat.Compute(snaps)
			r.drain(func() (string, bool) {
				a, ok := <-ac
				return strconv.Itoa(int(a)), ok
			}, pc, 0, 1)
		case "OUTCOME":
			ac, oc := strategy.ComputeWithOutcome(strat, snaps)
			r.drain(func() (string, bool) {
				a, ok := <-ac
				return strconv.Itoa(int(a)), ok
			}, pc, 0, 2)
			r.drain(floatRecv(oc), pc, 1, 2)
		case "REPORT":
			rep := strat.Report(snaps)
			total := 1 + len(rep.Columns)
			dc := rep.Date
			r.drain(func() (string, bool) {
				d, ok := <-dc
				if !ok {
					return "", false
				}
				return fmt.Sprint(int(d.Sub(day0).Hours() / 24)), true
			}, pc, 0, total)
			for i, c := range rep.Columns {
				ch, ok := columnChannel(c)
				if !ok {
					return "ERR column-without-values-field"
				}
				r.drain(reflectRecv(ch), pc, i+1, total)
			}
		}
	default:
		return "ERR unknown-kind"
	}
	return ""
}

func showOuts(outs [][]string) string {
	if len(outs) == 0 {
		return "_"
	}
	parts := make([]string, len(outs))
	for i, o := range outs {
		if len(o) == 0 {
			parts[i] = "-"
		} else {
			parts[i] = strings.Join(o, ",")
		}
	}
	return strings.Join(parts, ";")
}

func (r *obsRun) outs() [][]string {
	out := make([][]string, len(r.res))
	for i, p := range r.res {
		out[i] = *p
	}
	return out
}

func (r *obsRun) consumed() string {
	parts := make([]string, len(r.sent))
	for i, c := range r.sent {
		parts[i] = strconv.FormatInt(c.Load(), 10)
	}
	if len(parts) == 0 {
		return "-"
	}
	return strings.Join(parts, ",")
}

// SCHED kind name ns fs streams cap pace
func runSched(a []string) (result string) {
	defer func() {
		if r := recover(); r != nil {
			result = fmt.Sprintf("panic %v", r)
		}
	}()
	if len(a) != 7 {
		return "ERR bad-command"
	}
	n, err1 := parseInts(a[2])
	f, err2 := parseFloats(a[3])
	env, err3 := parseStreams(a[4])
	capacity, err4 := strconv.Atoi(a[5])
	mode, err5 := strconv.Atoi(a[6])
	if err1 != nil || err2 != nil || err3 != nil || err4 != nil || err5 != nil {
		return "ERR parse"
	}
	markPreexisting()
	baseline := runtime.NumGoroutine()
	r := &obsRun{}
	if e := startPipeline(r, a[0], a[1], n, f, env, capacity, pacing{mode}, nil, nil); e != "" {
		return e
	}
	verdict, detail := r.wait(20 * time.Second)
	switch verdict {
	case "deadlock":
		return fmt.Sprintf("deadlock consumed=%s stuck=%s", r.consumed(), detail)
	case "timeout":
		return "timeout consumed=" + r.consumed()
	}
	// producers finish on their own once every value has been taken: wait for them before the census
	r.settleProducers()
	leak, where := leakCensus(baseline)
	if where == "" {
		where = "-"
	}
	return fmt.Sprintf("ok consumed=%s leak=%d:%s | %s", r.consumed(), leak, where, showOuts(r.outs()))
}

// ---------------------------------------------------------------- C09: reuse of one instance

// REUSE kind name ns fs mode streams1/streams2/...   mode: seq | conc | both
// One instance; every input set is run on it (sequentially, then all at once); each result is printed.
func runReuse(a []string) (result string) {
	defer func() {
		if r := recover(); r != nil {
			result = fmt.Sprintf("panic %v", r)
		}
	}()
	if len(a) != 6 {
		return "ERR bad-command"
	}
	kind := a[0]
	n, err1 := parseInts(a[2])
	f, err2 := parseFloats(a[3])
	if err1 != nil || err2 != nil {
		return "ERR parse"
	}
	var envs [][][]float64
	for _, s := range strings.Split(a[5], "/") {
		env, err := parseStreams(s)
		if err != nil {
			return "ERR parse"
		}
		envs = append(envs, env)
	}
	var inst instFn
	var strat strategy.Strategy
	if kind == "IND" {
		ctor, ok := indCtors[a[1]]
		if !ok {
			return "ERR unknown-indicator"
		}
		inst = ctor(n, f)
	} else {
		var e string
		strat, e = reportStrategy(a[1], n, f)
		if strat == nil {
			return e
		}
	}
	one := func(env [][]float64, mode int) string {
		r := &obsRun{}
		if e := startPipeline(r, kind, a[1], n, f, env, 0, pacing{mode}, inst, strat); e != "" {
			return e
		}
		verdict, detail := r.wait(20 * time.Second)
		if verdict != "ok" {
			return verdict + ":" + detail
		}
		return showOuts(r.outs())
	}
	var seq, conc []string
	if a[4] == "seq" || a[4] == "both" {
		for _, env := range envs {
			seq = append(seq, one(env, 0))
		}
	}
	if a[4] == "conc" || a[4] == "both" {
		conc = make([]string, len(envs))
		var wg sync.WaitGroup
		for i, env := range envs {
			wg.Add(1)
			go func(i int, env [][]float64) {
				defer wg.Done()
				conc[i] = one(env, 1+i%2*4)
			}(i, env)
		}
		wg.Wait()
	}
	return "ok seq=" + strings.Join(seq, "#") + " conc=" + strings.Join(conc, "#")
}

var _ = asset.Snapshot{}

func init() {
	extraHandlers["SCHED"] = runSched
	extraHandlers["REUSE"] = runReuse
}

// ---------------------------------------------------------------- C09: instances shared between compounds

func sharedBases() []strategy.Strategy {
	var out []strategy.Strategy
	for _, nm := range []string{"Macd", "Rsi", "Trix", "Kdj", "GoldenCross", "Vwma", "Bop"} {
		out = append(out, strategies[nm](defaultNs[nm], defaultFs[nm]))
	}
	// decorators keep a reference to the wrapped instance too
	s, _ := reportStrategy("StopLoss:Macd", nil, nil)
	out = append(out, s)
	s, _ = reportStrategy("NoLoss:Rsi", nil, nil)
	out = append(out, s)
	return out
}

func sharedInput(idx int) []*asset.Snapshot {
	r := rand.New(rand.NewSource(int64(idx)*7919 + 13))
	n := 40 + idx%23
	env := make([][]float64, 5)
	c := 100.0
	for i := 0; i < n; i++ {
		o := c
		c = c * (1 + (r.Float64()-0.5)*0.2)
		hi, lo := o, c
		if lo > hi {
			hi, lo = lo, hi
		}
		env[0] = append(env[0], o)
		env[1] = append(env[1], hi*(1+r.Float64()*0.02))
		env[2] = append(env[2], lo*(1-r.Float64()*0.02))
		env[3] = append(env[3], c)
		env[4] = append(env[4], float64(100+r.Intn(1000)))
	}
	return makeSnapshots(env)
}

func actionsOf(s strategy.Strategy, snaps []*asset.Snapshot) string {
	c := make(chan *asset.Snapshot)
	go func() {
		for _, v := range snaps {
			c <- v
		}
		close(c)
	}()
	var sb strings.Builder
	for a := range s.Compute(c) {
		sb.WriteString(strconv.Itoa(int(a) + 1))
	}
	return sb.String()
}

// SHARED rounds: the compounds built by AllSplitStrategies / AllAndStrategies share their sub-strategy instances;
// run them all at once, each on its own input, and compare with compounds built over fresh instances, run alone.
func runShared(a []string) (result string) {
	defer func() {
		if r := recover(); r != nil {
			result = fmt.Sprintf("panic %v", r)
		}
	}()
	rounds, _ := strconv.Atoi(a[0])
	build := func() []strategy.Strategy {
		b := sharedBases()
		l := strategy.AllSplitStrategies(b)
		l = append(l, strategy.AllAndStrategies(b)...)
		return l
	}
	n := len(build())
	want := make([]string, n)
	for i := 0; i < n; i++ {
		want[i] = actionsOf(build()[i], sharedInput(i))
	}
	done := make(chan string, 1)
	go func() {
		for round := 0; round < rounds; round++ {
			shared := build()
			got := make([]string, n)
			var wg sync.WaitGroup
			for i := range shared {
				wg.Add(1)
				go func(i int) {
					defer wg.Done()
					got[i] = actionsOf(shared[i], sharedInput(i))
				}(i)
			}
			wg.Wait()
			// and once more, one after another, on the same (now used) instances
			for i := range shared {
				if again := actionsOf(shared[i], sharedInput(i)); again != got[i] {
					got[i] = "second-use-differs:" + again
				}
			}
			for i := range shared {
				if got[i] != want[i] {
					done <- fmt.Sprintf("differs compound=%d name=%s shared=%s fresh=%s", i, strings.ReplaceAll(shared[i].Name(), " ", "_"), got[i], want[i])
					return
				}
			}
		}
		done <- fmt.Sprintf("ok compounds=%d rounds=%d", n, rounds)
	}()
	select {
	case r := <-done:
		return r
	case <-time.After(120 * time.Second):
		return "timeout"
	}
}

func init() {
	extraHandlers["SHARED"] = runShared
}
