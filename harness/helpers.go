package main

// C16 / C17: helper functions, Ring and Bst driven with the same functions and operation
// sequences as the Lean driver.

import (
	"fmt"
	"math"
	"strconv"
	"strings"
	"sync"
	"unsafe"

	"github.com/cinar/indicator/v2/helper"
)

func runHelper(name, params, streams string) (result string) {
	defer func() {
		if r := recover(); r != nil {
			result = fmt.Sprintf("panic %v", r)
		}
	}()
	ps, err1 := parseInts(params)
	ins, err2 := parseIntStreams(streams)
	if err1 != nil || err2 != nil {
		return "ERR parse"
	}
	p := func(k int) int {
		if k < len(ps) {
			return ps[k]
		}
		return 0
	}
	prods := make([]*producer[int], 3)
	in := func(k int) <-chan int {
		var vals []int
		if k < len(ins) {
			vals = ins[k]
		}
		prods[k] = newProducer(vals, inputCap)
		return prods[k].c
	}
	var cs []<-chan int
	switch name {
	case "Pipe":
		t := make(chan int)
		go helper.Pipe(in(0), t)
		cs = []<-chan int{t}
	case "Buffered":
		cs = []<-chan int{helper.Buffered(in(0), 3)}
	case "Waitable":
		var wg sync.WaitGroup
		cs = []<-chan int{helper.Waitable(&wg, in(0))}
	case "Map":
		cs = []<-chan int{helper.Map(in(0), func(x int) int { return x*p(0) + p(1) })}
	case "MapWithPrevious":
		cs = []<-chan int{helper.MapWithPrevious(in(0), func(prev, x int) int { return prev*p(1) + x }, p(0))}
	case "Filter":
		cs = []<-chan int{helper.Filter(in(0), func(x int) bool { return x%2 == 0 })}
	case "Skip":
		cs = []<-chan int{helper.Skip(in(0), p(0))}
	case "Head":
		cs = []<-chan int{helper.Head(in(0), p(0))}
	case "First":
		cs = []<-chan int{helper.First(in(0), p(0))}
	case "Last":
		cs = []<-chan int{helper.Last(in(0), p(0))}
	case "Shift":
		cs = []<-chan int{helper.Shift(in(0), p(0), p(1))}
	case "Count":
		cs = []<-chan int{helper.Count(p(0), in(0))}
	case "Since":
		cs = []<-chan int{helper.Since[int, int](in(0))}
	case "Echo":
		cs = []<-chan int{helper.Echo(in(0), p(0), p(1))}
	case "Seq":
		cs = []<-chan int{helper.Seq(p(0), p(1), p(2))}
	case "Duplicate":
		cs = helper.Duplicate(in(0), p(0))
	case "Operate":
		cs = []<-chan int{helper.Operate(in(0), in(1), func(x, y int) int { return x*3 + y })}
	case "Operate3":
		cs = []<-chan int{helper.Operate3(in(0), in(1), in(2), func(x, y, z int) int { return x*5 + y*3 + z })}
	case "Add":
		cs = []<-chan int{helper.Add(in(0), in(1))}
	case "Subtract":
		cs = []<-chan int{helper.Subtract(in(0), in(1))}
	case "Multiply":
		cs = []<-chan int{helper.Multiply(in(0), in(1))}
	case "Change":
		cs = []<-chan int{helper.Change(in(0), p(0))}
	case "IncrementBy":
		cs = []<-chan int{helper.IncrementBy(in(0), p(0))}
	case "DecrementBy":
		cs = []<-chan int{helper.DecrementBy(in(0), p(0))}
	case "MultiplyBy":
		cs = []<-chan int{helper.MultiplyBy(in(0), p(0))}
	case "Abs":
		cs = []<-chan int{helper.Abs(in(0))}
	case "Sign":
		cs = []<-chan int{helper.Sign(in(0))}
	case "KeepPositives":
		cs = []<-chan int{helper.KeepPositives(in(0))}
	case "KeepNegatives":
		cs = []<-chan int{helper.KeepNegatives(in(0))}
	// integer element type through the dividing helpers (Go integer division truncates toward zero)
	case "DivideI":
		cs = []<-chan int{helper.Divide(in(0), in(1))}
	case "DivideByI":
		cs = []<-chan int{helper.DivideBy(in(0), p(0))}
	case "ChangeRatioI":
		cs = []<-chan int{helper.ChangeRatio(in(0), p(0))}
	case "ChangePercentI":
		cs = []<-chan int{helper.ChangePercent(in(0), p(0))}
	// two inputs that are branches of one Duplicate, the remaining input independent (and possibly shorter):
	// the zip must still let the shared source be consumed to its end
	case "OperateShared":
		d := helper.Duplicate(in(0), 2)
		cs = []<-chan int{helper.Operate(d[0], d[1], func(x, y int) int { return x*3 + y })}
	case "Operate3Shared":
		d := helper.Duplicate(in(0), 2)
		cs = []<-chan int{helper.Operate3(d[0], d[1], in(1), func(x, y, z int) int { return x*5 + y*3 + z })}
	case "Operate3SharedLast":
		d := helper.Duplicate(in(1), 2)
		cs = []<-chan int{helper.Operate3(in(0), d[0], d[1], func(x, y, z int) int { return x*5 + y*3 + z })}
	default:
		return "ERR unknown-helper"
	}
	res, ok := drainAll(cs, caseTimeout)
	if !ok {
		return "timeout"
	}
	var consumed []int
	for _, pr := range prods {
		if pr != nil {
			consumed = append(consumed, pr.settle())
		}
	}
	parts := make([]string, len(res))
	for i, r := range res {
		parts[i] = showInts(r)
	}
	out := "_"
	if len(parts) > 0 {
		out = strings.Join(parts, ";")
	}
	return "ok " + out + " | consumed=" + showInts(consumed)
}

func runHelperF(name, params, streams string) (result string) {
	defer func() {
		if r := recover(); r != nil {
			result = fmt.Sprintf("panic %v", r)
		}
	}()
	ps, err1 := parseInts(params)
	ins, err2 := parseStreams(streams)
	if err1 != nil || err2 != nil {
		return "ERR parse"
	}
	p := func(k int) int {
		if k < len(ps) {
			return ps[k]
		}
		return 0
	}
	prods := make([]*producer[float64], 2)
	in := func(k int) <-chan float64 {
		var vals []float64
		if k < len(ins) {
			vals = ins[k]
		}
		prods[k] = newProducer(vals, inputCap)
		return prods[k].c
	}
	var c <-chan float64
	switch name {
	case "ChangeRatio":
		c = helper.ChangeRatio(in(0), p(0))
	case "ChangePercent":
		c = helper.ChangePercent(in(0), p(0))
	case "Divide":
		c = helper.Divide(in(0), in(1))
	case "DivideBy":
		c = helper.DivideBy(in(0), float64(p(0)))
	case "Sqrt":
		c = helper.Sqrt(in(0))
	case "Pow2":
		c = helper.Pow(in(0), 2)
	case "PowInv":
		c = helper.Pow(in(0), -1)
	case "RoundDigits0":
		c = helper.RoundDigits(in(0), 0)
	case "CountF": // a fractional start value: p0/10, negated when p1 = 1
		from := float64(p(0)) / 10
		if p(1) == 1 {
			from = -from
		}
		c = helper.Count(from, in(0))
	case "KeepPositivesF":
		c = helper.KeepPositives(in(0))
	case "KeepNegativesF":
		c = helper.KeepNegatives(in(0))
	case "AbsF":
		c = helper.Abs(in(0))
	case "SignF":
		c = helper.Sign(in(0))
	default:
		return "ERR unknown-helper"
	}
	res, ok := drainAll([]<-chan float64{c}, caseTimeout)
	if !ok {
		return "timeout"
	}
	var consumed []int
	for _, pr := range prods {
		if pr != nil {
			consumed = append(consumed, pr.settle())
		}
	}
	return "ok " + showFloats(res[0]) + " | consumed=" + showInts(consumed)
}

// ---- Ring / Bst over every supported element type ----

type number interface {
	~int | ~int8 | ~int16 | ~int32 | ~int64 | ~float32 | ~float64
}

func ringOps[T number](capacity int, ops []string, parse func(string) (T, bool), show func(T) string) string {
	r := helper.NewRing[T](capacity)
	var out []string
	for _, op := range ops {
		f := strings.Split(op, ":")
		switch {
		case f[0] == "put" && len(f) == 2:
			v, ok := parse(f[1])
			if !ok {
				out = append(out, "bad")
				continue
			}
			out = append(out, show(r.Put(v)))
		case f[0] == "get":
			v, ok := r.Get()
			if ok {
				out = append(out, show(v))
			} else {
				out = append(out, "none")
			}
		case f[0] == "at" && len(f) == 2:
			i, err := strconv.Atoi(f[1])
			if err != nil {
				out = append(out, "bad")
				continue
			}
			out = append(out, show(r.At(i)))
		case f[0] == "full":
			out = append(out, tf(r.IsFull()))
		case f[0] == "empty":
			out = append(out, tf(r.IsEmpty()))
		default:
			out = append(out, "bad")
		}
	}
	return "ok " + strings.Join(out, ",")
}

func tf(b bool) string {
	if b {
		return "t"
	}
	return "f"
}

func parseIntAs[T number](s string) (T, bool) {
	v, err := strconv.ParseInt(s, 10, 64)
	if err != nil {
		return 0, false
	}
	t := T(v)
	if int64(t) != v {
		return 0, false // out of range for the type
	}
	return t, true
}

func showIntAs[T number](v T) string { return strconv.FormatInt(int64(v), 10) }

func runRing(typ, capS, opsS string) (result string) {
	defer func() {
		if r := recover(); r != nil {
			result = fmt.Sprintf("panic %v", r)
		}
	}()
	capacity, err := strconv.Atoi(capS)
	if err != nil {
		return "ERR parse"
	}
	ops := splitList(opsS, ",")
	switch typ {
	case "int":
		return ringOps(capacity, ops, parseIntAs[int], showIntAs[int])
	case "int8":
		return ringOps(capacity, ops, parseIntAs[int8], showIntAs[int8])
	case "int16":
		return ringOps(capacity, ops, parseIntAs[int16], showIntAs[int16])
	case "int32":
		return ringOps(capacity, ops, parseIntAs[int32], showIntAs[int32])
	case "int64":
		return ringOps(capacity, ops, parseIntAs[int64], showIntAs[int64])
	case "float32":
		return ringOps(capacity, ops, parseIntAs[float32], showIntAs[float32])
	case "float64":
		return ringOps(capacity, ops, parseIntAs[float64], showIntAs[float64])
	}
	return "ERR unknown-type"
}

func bstOps[T helper.Number](ops []string, parse func(string) (T, bool), show func(T) string, shape bool) string {
	b := helper.NewBst[T]()
	var out []string
	for _, op := range ops {
		f := strings.Split(op, ":")
		var v T
		if len(f) == 2 {
			var ok bool
			v, ok = parse(f[1])
			if !ok {
				out = append(out, "bad")
				continue
			}
		}
		switch {
		case f[0] == "ins" && len(f) == 2:
			b.Insert(v)
			out = append(out, "-")
		case f[0] == "rem" && len(f) == 2:
			out = append(out, tf(b.Remove(v)))
		case f[0] == "has" && len(f) == 2:
			out = append(out, tf(b.Contains(v)))
		case f[0] == "min":
			out = append(out, show(b.Min()))
		case f[0] == "max":
			out = append(out, show(b.Max()))
		default:
			out = append(out, "bad")
		}
	}
	res := "ok " + strings.Join(out, ",")
	if shape {
		res += " | " + bstShape(b, show)
	}
	return res
}

func parseInt64As[T helper.Number](s string) (T, bool) {
	v, err := strconv.ParseInt(s, 10, 64)
	if err != nil {
		return 0, false
	}
	t := T(v)
	if int64(t) != v {
		return 0, false
	}
	return t, true
}

func showNumAs[T helper.Number](v T) string { return strconv.FormatInt(int64(v), 10) }

func runBst(typ, opsS string, shape bool) (result string) {
	defer func() {
		if r := recover(); r != nil {
			result = fmt.Sprintf("panic %v", r)
		}
	}()
	ops := splitList(opsS, ",")
	switch typ {
	case "int":
		return bstOps(ops, parseInt64As[int], showNumAs[int], shape)
	case "int8":
		return bstOps(ops, parseInt64As[int8], showNumAs[int8], shape)
	case "int16":
		return bstOps(ops, parseInt64As[int16], showNumAs[int16], shape)
	case "int32":
		return bstOps(ops, parseInt64As[int32], showNumAs[int32], shape)
	case "int64":
		return bstOps(ops, parseInt64As[int64], showNumAs[int64], shape)
	case "float32":
		return bstOps(ops, parseInt64As[float32], showNumAs[float32], shape)
	case "float64":
		return bstOps(ops, parseInt64As[float64], showNumAs[float64], shape)
	}
	return "ERR unknown-type"
}

var _ = math.Abs

// BSTF: Bst[float64] over arbitrary (hex-encoded) float64 values — fractions, neighbouring doubles, subnormals
func init() {
	extraHandlers["BSTF"] = func(a []string) (result string) {
		defer func() {
			if r := recover(); r != nil {
				result = fmt.Sprintf("panic %v", r)
			}
		}()
		if len(a) != 1 {
			return "ERR bad-command"
		}
		parse := func(s string) (float64, bool) {
			f, err := floatOfHex(s)
			return f, err == nil
		}
		return bstOps(splitList(a[0], ","), parse, hexOfFloat, false)
	}
}

type shadowNode[T helper.Number] struct {
	value T
	left  *shadowNode[T]
	right *shadowNode[T]
}

type shadowBst[T helper.Number] struct {
	root *shadowNode[T]
}

// bstShape reads the private tree through structurally identical shadow types.
func bstShape[T helper.Number](b *helper.Bst[T], show func(T) string) string {
	sb := (*shadowBst[T])(unsafe.Pointer(b))
	var walk func(n *shadowNode[T]) string
	walk = func(n *shadowNode[T]) string {
		if n == nil {
			return "."
		}
		return "(" + walk(n.left) + " " + show(n.value) + " " + walk(n.right) + ")"
	}
	return walk(sb.root)
}
