package main

// INDI: the indicators whose formula has a single, data-independent final division (or none), instantiated at an
// integer element type.  "INDI <name> <ns> <int streams>" -> "ok idle=<w> | <out>;<out>…"

import (
	"fmt"
	"strconv"
	"strings"

	"github.com/cinar/indicator/v2/helper"
	"github.com/cinar/indicator/v2/momentum"
	"github.com/cinar/indicator/v2/trend"
	"github.com/cinar/indicator/v2/volatility"
)

type intInd func(n []int, in []<-chan int64) ([]<-chan int64, int)

func iouts(cs ...<-chan int64) []<-chan int64 { return cs }

var indIntCtors = map[string]intInd{
	"Sma": func(n []int, in []<-chan int64) ([]<-chan int64, int) {
		x := trend.NewSmaWithPeriod[int64](n[0])
		return iouts(x.Compute(in[0])), x.IdlePeriod()
	},
	"MovingSum": func(n []int, in []<-chan int64) ([]<-chan int64, int) {
		x := trend.NewMovingSumWithPeriod[int64](n[0])
		return iouts(x.Compute(in[0])), x.IdlePeriod()
	},
	"MovingMax": func(n []int, in []<-chan int64) ([]<-chan int64, int) {
		x := trend.NewMovingMaxWithPeriod[int64](n[0])
		return iouts(x.Compute(in[0])), x.IdlePeriod()
	},
	"MovingMin": func(n []int, in []<-chan int64) ([]<-chan int64, int) {
		x := trend.NewMovingMinWithPeriod[int64](n[0])
		return iouts(x.Compute(in[0])), x.IdlePeriod()
	},
	"DonchianChannel": func(n []int, in []<-chan int64) ([]<-chan int64, int) {
		x := volatility.NewDonchianChannelWithPeriod[int64](n[0])
		a, b, c := x.Compute(in[0])
		return iouts(a, b, c), x.IdlePeriod()
	},
	"TypicalPrice": func(n []int, in []<-chan int64) ([]<-chan int64, int) {
		x := trend.NewTypicalPrice[int64]()
		return iouts(x.Compute(in[0], in[1], in[2])), 0
	},
	"WeightedClose": func(n []int, in []<-chan int64) ([]<-chan int64, int) {
		x := trend.NewWeightedClose[int64]()
		return iouts(x.Compute(in[0], in[1], in[2])), x.IdlePeriod()
	},
	"Qstick": func(n []int, in []<-chan int64) ([]<-chan int64, int) {
		x := momentum.NewQstick[int64]()
		x.Sma.Period = n[0]
		return iouts(x.Compute(in[0], in[1])), x.IdlePeriod()
	},
}

func runIndInt(a []string) (result string) {
	defer func() {
		if r := recover(); r != nil {
			result = fmt.Sprintf("panic %v", r)
		}
	}()
	if len(a) != 3 {
		return "ERR bad-command"
	}
	ctor, ok := indIntCtors[a[0]]
	if !ok {
		return "ERR unknown-indicator"
	}
	n, err1 := parseInts(a[1])
	env, err2 := parseIntStreams(a[2])
	if err1 != nil || err2 != nil {
		return "ERR parse"
	}
	ins := make([]<-chan int64, len(env))
	for i, s := range env {
		vals := make([]int64, len(s))
		for j, v := range s {
			vals[j] = int64(v)
		}
		ins[i] = helper.SliceToChan(vals)
	}
	cs, idle := ctor(n, ins)
	res, ok := drainAll(cs, caseTimeout)
	if !ok {
		return "timeout"
	}
	parts := make([]string, len(res))
	for i, r := range res {
		if len(r) == 0 {
			parts[i] = "-"
			continue
		}
		ss := make([]string, len(r))
		for j, v := range r {
			ss[j] = strconv.FormatInt(v, 10)
		}
		parts[i] = strings.Join(ss, ",")
	}
	return fmt.Sprintf("ok idle=%d | %s", idle, strings.Join(parts, ";"))
}

func init() {
	extraHandlers["INDI"] = runIndInt
}
