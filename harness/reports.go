package main

// C14: strategy reports. Every column channel (private field `values`) and the date channel are
// drained concurrently, by independent readers, through reflection.

import (
	"fmt"
	"reflect"
	"strconv"
	"strings"
	"sync"
	"time"
	"unsafe"

	"github.com/cinar/indicator/v2/helper"
	"github.com/cinar/indicator/v2/strategy"
	"github.com/cinar/indicator/v2/strategy/compound"
	"github.com/cinar/indicator/v2/strategy/decorator"
	strend "github.com/cinar/indicator/v2/strategy/trend"
)

func columnChannel(col helper.ReportColumn) (reflect.Value, bool) {
	v := reflect.ValueOf(col)
	if v.Kind() != reflect.Ptr {
		return reflect.Value{}, false
	}
	f := v.Elem().FieldByName("values")
	if !f.IsValid() {
		return reflect.Value{}, false
	}
	return reflect.NewAt(f.Type(), unsafe.Pointer(f.UnsafeAddr())).Elem(), true
}

func reportStrategy(name string, n []int, f []float64) (strategy.Strategy, string) {
	// wrappers over a base strategy: "NoLoss:Macd", "And:Macd+Rsi" …
	if i := strings.Index(name, ":"); i > 0 {
		wrap, inner := name[:i], name[i+1:]
		parts := strings.Split(inner, "+")
		subs := make([]strategy.Strategy, 0, len(parts))
		for _, p := range parts {
			if strings.HasPrefix(p, "@") {
				// "@k": the very same instance as the k-th wrapped strategy (one object on two sides of a compound)
				k, err := strconv.Atoi(p[1:])
				if err != nil || k < 0 || k >= len(subs) {
					return nil, "ERR bad-shared-reference"
				}
				subs = append(subs, subs[k])
				continue
			}
			ctor, ok := strategies[p]
			if !ok {
				return nil, "ERR unknown-strategy"
			}
			subs = append(subs, ctor(defaultNs[p], defaultFs[p]))
		}
		if strings.HasPrefix(wrap, "StopLossP") {
			// a Stop-Loss with an explicit percentage: "StopLossP2.5:Macd" (1 and more = a stop at or below zero: never reached)
			pct, err := strconv.ParseFloat(strings.TrimPrefix(wrap, "StopLossP"), 64)
			if err != nil {
				return nil, "ERR bad-percentage"
			}
			return decorator.NewStopLossStrategy(subs[0], pct), ""
		}
		switch wrap {
		case "Inverse":
			return decorator.NewInverseStrategy(subs[0]), ""
		case "NoLoss":
			return decorator.NewNoLossStrategy(subs[0]), ""
		case "StopLoss":
			return decorator.NewStopLossStrategy(subs[0], 0.1), ""
		case "And":
			return strategy.NewAndStrategy("and", subs...), ""
		case "Or":
			return strategy.NewOrStrategy("or", subs...), ""
		case "Majority":
			return strategy.NewMajorityStrategyWith("majority", subs), ""
		case "Split":
			return strategy.NewSplitStrategy(subs[0], subs[1]), ""
		}
		return nil, "ERR unknown-wrapper"
	}
	if name == "MacdRsi" {
		if len(n) == 3 && len(f) == 2 { // custom MACD periods and RSI levels (the exported fields a user may set)
			m := compound.NewMacdRsiStrategyWith(f[0], f[1])
			m.MacdStrategy = strategies["Macd"](n, nil).(*strend.MacdStrategy)
			return m, ""
		}
		return compound.NewMacdRsiStrategy(), ""
	}
	ctor, ok := strategies[name]
	if !ok {
		return nil, "ERR unknown-strategy"
	}
	return ctor(n, f), ""
}

var defaultNs = map[string][]int{"Macd": {3, 5, 2}, "Rsi": {4}, "Bop": {}, "BuyAndHold": {}, "Trix": {2}, "Vwma": {3},
	"GoldenCross": {2, 5}, "Kdj": {3, 2, 2}, "Smma": {2, 4}, "Alligator": {4, 3, 2}, "SuperTrend": {5, 4}}
var defaultFs = map[string][]float64{"Rsi": {30, 70}, "SuperTrend": {2.5}}

func runReport(name, ns, fs, streams string, zeroDate int) (result string) {
	defer func() {
		if r := recover(); r != nil {
			result = fmt.Sprintf("panic %v", r)
		}
	}()
	n, err1 := parseInts(ns)
	f, err2 := parseFloats(fs)
	env, err3 := parseStreams(streams)
	if err1 != nil || err2 != nil || err3 != nil {
		return "ERR parse"
	}
	s, errS := reportStrategy(name, n, f)
	if s == nil {
		return errS
	}
	snaps := makeSnapshots(env)
	if zeroDate >= 0 && zeroDate < len(snaps) {
		snaps[zeroDate].Date = time.Time{} // a snapshot whose date was never set
	}
	prod := newProducer(snaps, inputCap)
	rep := s.Report(prod.c)
	type colres struct {
		name, typ string
		vals      []string
	}
	cols := make([]colres, len(rep.Columns))
	var dates []string
	var wg sync.WaitGroup
	wg.Add(1)
	go func() {
		defer wg.Done()
		for d := range rep.Date {
			if d.IsZero() {
				dates = append(dates, "-1")
				continue
			}
			dates = append(dates, fmt.Sprint(int(d.Sub(day0).Hours()/24)))
		}
	}()
	for i, c := range rep.Columns {
		ch, ok := columnChannel(c)
		cols[i].typ = c.Type()
		if cols[i].typ == "number" {
			cols[i].name = c.Name()
		} else {
			cols[i].name = "annotation"
		}
		if !ok {
			return "ERR column-without-values-field"
		}
		wg.Add(1)
		go func(i int, ch reflect.Value) {
			defer wg.Done()
			for {
				v, ok := ch.Recv()
				if !ok {
					return
				}
				switch v.Kind() {
				case reflect.Float64, reflect.Float32:
					cols[i].vals = append(cols[i].vals, hexOfFloat(v.Float()))
				case reflect.String:
					s := v.String()
					if s == "" {
						s = "."
					}
					cols[i].vals = append(cols[i].vals, s)
				default:
					cols[i].vals = append(cols[i].vals, fmt.Sprint(v.Interface()))
				}
			}
		}(i, ch)
	}
	fin := make(chan struct{})
	go func() { wg.Wait(); close(fin) }()
	select {
	case <-fin:
	case <-time.After(curTimeout()):
		noteTimeout()
		close(prod.stop)
		return "timeout"
	}
	var sb strings.Builder
	sb.WriteString("ok dates=")
	if len(dates) == 0 {
		sb.WriteString("-")
	} else {
		sb.WriteString(strings.Join(dates, ","))
	}
	for _, c := range cols {
		sb.WriteString(" | " + strings.ReplaceAll(c.name, " ", "_") + ":" + c.typ + ":")
		if len(c.vals) == 0 {
			sb.WriteString("-")
		} else {
			sb.WriteString(strings.Join(c.vals, ","))
		}
	}
	return sb.String()
}

func init() {
	extraHandlers["REPORT"] = func(a []string) string {
		if len(a) != 4 {
			return "ERR bad-command"
		}
		return runReport(a[0], a[1], a[2], a[3], -1)
	}
	extraHandlers["REPORTZ"] = func(a []string) string {
		if len(a) != 5 {
			return "ERR bad-command"
		}
		z, _ := strconv.Atoi(a[4])
		return runReport(a[0], a[1], a[2], a[3], z)
	}
}
