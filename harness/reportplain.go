package main

// REPORTPLAIN <n>: reports built directly with the helper API, the way a caller (not a strategy) builds them — columns added
// to the main chart before any AddChart, then to extra charts.  The same report is built and rendered n times in one process:
// every rendering must be identical to the first (a report object starts from nothing but its arguments).

import (
	"bytes"
	"fmt"
	"strings"
	"time"

	"github.com/cinar/indicator/v2/helper"
)

func renderPlainReport(rows int, withCharts bool) (string, error) {
	dates := make([]time.Time, rows)
	a, b, c := make([]float64, rows), make([]float64, rows), make([]string, rows)
	for i := range dates {
		dates[i] = time.Date(2024, 1, 1+i, 0, 0, 0, 0, time.UTC)
		a[i], b[i] = float64(10+i), float64(100-i)
		if i%3 == 1 {
			c[i] = "B"
		}
	}
	r := helper.NewReport("plain", helper.SliceToChan(dates))
	r.GeneratedOn = "-" // the only part of a report that legitimately differs between two renderings
	r.AddColumn(helper.NewNumericReportColumn("A", helper.SliceToChan(a)))
	r.AddColumn(helper.NewAnnotationReportColumn(helper.SliceToChan(c)))
	if withCharts {
		r.AddChart()
		r.AddColumn(helper.NewNumericReportColumn("B", helper.SliceToChan(b)), 1)
	} else {
		r.AddColumn(helper.NewNumericReportColumn("B", helper.SliceToChan(b)))
	}
	var buf bytes.Buffer
	done := make(chan error, 1)
	go func() { done <- r.WriteToWriter(&buf) }()
	select {
	case err := <-done:
		return buf.String(), err
	case <-time.After(10 * time.Second):
		return "", fmt.Errorf("rendering hangs")
	}
}

func runReportPlain(a []string) (result string) {
	defer func() {
		if r := recover(); r != nil {
			result = fmt.Sprintf("panic %v", r)
		}
	}()
	n := 3
	if len(a) > 0 {
		fmt.Sscanf(a[0], "%d", &n)
	}
	for _, charts := range []bool{false, true} {
		first := ""
		for k := 0; k < n; k++ {
			out, err := renderPlainReport(5+k%2*0, charts)
			if err != nil {
				return "ok differ rendering-" + strings.ReplaceAll(err.Error(), " ", "_")
			}
			if k == 0 {
				first = out
				if !strings.Contains(out, "new Date(") {
					return "ok differ no-rows-rendered"
				}
			} else if out != first {
				return fmt.Sprintf("ok differ rendering=%d charts=%v: the same report built again renders differently (%d vs %d bytes)", k+1, charts, len(out), len(first))
			}
		}
	}
	return fmt.Sprintf("ok same renderings=%d", 2*n)
}

func init() {
	extraHandlers["REPORTPLAIN"] = runReportPlain
}
