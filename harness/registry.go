package main

// REGISTRY <streams>: every strategy returned by the library's registry functions (default-constructed) is run on the series.
// Output: "ok <registry>/<index>/<Name>=<actions>;…" — compared by the check with the same strategy built through the
// parameterised constructors with the documented default parameters.

import (
	"fmt"
	"strings"

	"github.com/cinar/indicator/v2/strategy"
	"github.com/cinar/indicator/v2/strategy/compound"
	smom "github.com/cinar/indicator/v2/strategy/momentum"
	strend "github.com/cinar/indicator/v2/strategy/trend"
	svola "github.com/cinar/indicator/v2/strategy/volatility"
	svolu "github.com/cinar/indicator/v2/strategy/volume"
)

func runRegistry(a []string) (result string) {
	defer func() {
		if r := recover(); r != nil {
			result = fmt.Sprintf("panic %v", r)
		}
	}()
	if len(a) != 1 {
		return "ERR bad-command"
	}
	env, err := parseStreams(a[0])
	if err != nil {
		return "ERR parse"
	}
	regs := []struct {
		name string
		list []strategy.Strategy
	}{
		{"trend", strend.AllStrategies()}, {"momentum", smom.AllStrategies()}, {"volatility", svola.AllStrategies()},
		{"volume", svolu.AllStrategies()}, {"compound", compound.AllStrategies()}, {"strategy", strategy.AllStrategies()},
		// default constructors that no registry hands out
		{"extra", []strategy.Strategy{strend.NewEnvelopeStrategy()}},
	}
	// the product registries, over three base strategies configured like the members of the wrapped strategies elsewhere
	mk := func() []strategy.Strategy {
		var l []strategy.Strategy
		for _, p := range []string{"Macd", "Rsi", "Trix"} {
			l = append(l, strategies[p](defaultNs[p], defaultFs[p]))
		}
		return l
	}
	regs = append(regs, struct {
		name string
		list []strategy.Strategy
	}{"and", strategy.AllAndStrategies(mk())}, struct {
		name string
		list []strategy.Strategy
	}{"split", strategy.AllSplitStrategies(mk())})
	var parts []string
	for _, r := range regs {
		for i, s := range r.list {
			prod := newProducer(makeSnapshots(env), inputCap)
			res, ok := drainAll([]<-chan strategy.Action{s.Compute(prod.c)}, caseTimeout)
			acts := "timeout"
			if ok {
				prod.settle()
				acts = showInts(actionsToInts(res[0]))
			} else {
				close(prod.stop)
			}
			parts = append(parts, fmt.Sprintf("%s/%d/%s=%s", r.name, i, strings.ReplaceAll(s.Name(), " ", "_"), acts))
		}
	}
	return "ok " + strings.Join(parts, ";")
}

func init() {
	extraHandlers["REGISTRY"] = runRegistry
}
