package main

// ivharness: drives the real cinar/indicator code on cases received over the same line protocol
// as the Lean driver (`ivdriver`).  One case per line on stdin, one result per line on stdout.

import (
	"bufio"
	"fmt"
	"math"
	"os"
	"strconv"
	"strings"
	"sync"
	"sync/atomic"
	"time"
)

var caseTimeout = 3 * time.Second

// A case that does not finish costs a whole timeout. On a tree where pipelines stall that adds up to many minutes, so once a
// process has seen a few timeouts it waits less for the following cases (each is still reported as a timeout; on a tree
// without stalls no case ever times out and nothing changes).
var timeoutsSeen atomic.Int32

func noteTimeout() { timeoutsSeen.Add(1) }

func curTimeout() time.Duration {
	if timeoutsSeen.Load() >= 3 && caseTimeout > 500*time.Millisecond {
		return 500 * time.Millisecond
	}
	return caseTimeout
}

func hexOfFloat(f float64) string {
	if math.IsNaN(f) {
		return "7ff8000000000001"
	}
	return fmt.Sprintf("%016x", math.Float64bits(f))
}

func floatOfHex(s string) (float64, error) {
	u, err := strconv.ParseUint(s, 16, 64)
	if err != nil {
		return 0, err
	}
	return math.Float64frombits(u), nil
}

func splitList(s, sep string) []string {
	if s == "-" || s == "" {
		return nil
	}
	return strings.Split(s, sep)
}

func parseFloats(s string) ([]float64, error) {
	parts := splitList(s, ",")
	out := make([]float64, 0, len(parts))
	for _, p := range parts {
		f, err := floatOfHex(p)
		if err != nil {
			return nil, err
		}
		out = append(out, f)
	}
	return out, nil
}

func parseInts(s string) ([]int, error) {
	parts := splitList(s, ",")
	out := make([]int, 0, len(parts))
	for _, p := range parts {
		v, err := strconv.Atoi(p)
		if err != nil {
			return nil, err
		}
		out = append(out, v)
	}
	return out, nil
}

func parseStreams(s string) ([][]float64, error) {
	if s == "_" {
		return nil, nil
	}
	var out [][]float64
	for _, p := range strings.Split(s, ";") {
		fs, err := parseFloats(p)
		if err != nil {
			return nil, err
		}
		out = append(out, fs)
	}
	return out, nil
}

func parseIntStreams(s string) ([][]int, error) {
	if s == "_" {
		return nil, nil
	}
	var out [][]int
	for _, p := range strings.Split(s, ";") {
		is, err := parseInts(p)
		if err != nil {
			return nil, err
		}
		out = append(out, is)
	}
	return out, nil
}

func showFloats(l []float64) string {
	if len(l) == 0 {
		return "-"
	}
	parts := make([]string, len(l))
	for i, f := range l {
		parts[i] = hexOfFloat(f)
	}
	return strings.Join(parts, ",")
}

func showStreams(l [][]float64) string {
	if len(l) == 0 {
		return "_"
	}
	parts := make([]string, len(l))
	for i, s := range l {
		parts[i] = showFloats(s)
	}
	return strings.Join(parts, ";")
}

func showInts[T any](l []T) string {
	if len(l) == 0 {
		return "-"
	}
	parts := make([]string, len(l))
	for i, v := range l {
		parts[i] = fmt.Sprint(v)
	}
	return strings.Join(parts, ",")
}

// producer feeds a slice into an unbuffered (or cap-buffered) channel and counts deliveries.
type producer[T any] struct {
	c    chan T
	sent atomic.Int64
	done chan struct{}
	stop chan struct{}
}

func newProducer[T any](values []T, capacity int) *producer[T] {
	p := &producer[T]{c: make(chan T, capacity), done: make(chan struct{}), stop: make(chan struct{})}
	go func() {
		defer close(p.done)
		defer close(p.c)
		for _, v := range values {
			select {
			case p.c <- v:
				p.sent.Add(1)
			case <-p.stop:
				return
			}
		}
	}()
	return p
}

// settle waits until the producer finished, or its delivery count stayed unchanged for a while.
func (p *producer[T]) settle() int {
	last := p.sent.Load()
	stable := 0
	for stable < 25 {
		select {
		case <-p.done:
			return int(p.sent.Load())
		case <-time.After(2 * time.Millisecond):
		}
		cur := p.sent.Load()
		if cur == last {
			stable++
		} else {
			stable = 0
			last = cur
		}
	}
	close(p.stop)
	return int(last)
}

// drainAll reads every channel to its end concurrently; false on timeout.
func drainAll[T any](cs []<-chan T, timeout time.Duration) ([][]T, bool) {
	res := make([][]T, len(cs))
	var wg sync.WaitGroup
	var overflow atomic.Bool
	for i, c := range cs {
		wg.Add(1)
		go func(i int, c <-chan T) {
			defer wg.Done()
			for v := range c {
				res[i] = append(res[i], v)
				if len(res[i]) > runawayLimit { // a stream that never ends: stop reading, report failure
					overflow.Store(true)
					return
				}
			}
		}(i, c)
	}
	fin := make(chan struct{})
	go func() { wg.Wait(); close(fin) }()
	select {
	case <-fin:
		if overflow.Load() {
			return nil, false
		}
		return res, true
	case <-time.After(min(timeout, curTimeout())):
		noteTimeout()
		return nil, false
	}
}

func runInd(name, ns, fs, streams string) (result string) {
	defer func() {
		if r := recover(); r != nil {
			result = fmt.Sprintf("panic %v", r)
		}
	}()
	n, err1 := parseInts(ns)
	f, err2 := parseFloats(fs)
	env, err3 := parseStreams(streams)
	if err1 != nil || err2 != nil || err3 != nil {
		return "ERR parse"
	}
	fn, ok := indicators[name]
	if !ok {
		return "ERR unknown-indicator"
	}
	ins := make([]<-chan float64, len(env))
	prods := make([]*producer[float64], len(env))
	for i, s := range env {
		prods[i] = newProducer(s, inputCap)
		ins[i] = prods[i].c
	}
	cs, idle := fn(n, f, ins)
	res, ok := drainAll(cs, caseTimeout)
	if !ok {
		for _, p := range prods {
			close(p.stop)
		}
		return "timeout"
	}
	consumed := make([]int, len(prods))
	for i, p := range prods {
		consumed[i] = p.settle()
	}
	return fmt.Sprintf("ok idle=%d consumed=%s | %s", idle, showInts(consumed), showStreams(res))
}

var inputCap = 0

func handle(line string) string {
	parts := strings.Split(strings.TrimSpace(line), " ")
	if len(parts) < 2 {
		return "? ERR empty"
	}
	id := parts[0]
	switch {
	case parts[1] == "IND" && len(parts) == 6:
		return id + " " + runInd(parts[2], parts[3], parts[4], parts[5])
	case parts[1] == "HELPER" && len(parts) == 5:
		return id + " " + runHelper(parts[2], parts[3], parts[4])
	case parts[1] == "HELPERF" && len(parts) == 5:
		return id + " " + runHelperF(parts[2], parts[3], parts[4])
	case parts[1] == "RING" && len(parts) == 5:
		return id + " " + runRing(parts[2], parts[3], parts[4])
	case (parts[1] == "BST" || parts[1] == "BSTSHAPE") && len(parts) == 4:
		return id + " " + runBst(parts[2], parts[3], parts[1] == "BSTSHAPE")
	}
	if h, ok := extraHandlers[parts[1]]; ok {
		return id + " " + h(parts[2:])
	}
	return id + " ERR bad-command"
}

var extraHandlers = map[string]func([]string) string{}

func main() {
	if v := os.Getenv("IVH_INPUT_CAP"); v != "" {
		inputCap, _ = strconv.Atoi(v)
	}
	if v := os.Getenv("IVH_TIMEOUT_MS"); v != "" {
		ms, _ := strconv.Atoi(v)
		caseTimeout = time.Duration(ms) * time.Millisecond
	}
	if len(os.Args) > 1 && os.Args[1] != "exec" {
		if cmd, ok := subcommands[os.Args[1]]; ok {
			os.Exit(cmd(os.Args[2:]))
		}
		fmt.Fprintln(os.Stderr, "unknown subcommand", os.Args[1])
		os.Exit(2)
	}
	in := bufio.NewReaderSize(os.Stdin, 1<<20)
	out := bufio.NewWriter(os.Stdout)
	defer out.Flush()
	for {
		line, err := in.ReadString('\n')
		if len(line) > 0 && strings.TrimSpace(line) != "" {
			fmt.Fprintln(out, handle(line))
			out.Flush()
		}
		if err != nil {
			break
		}
	}
}

var subcommands = map[string]func([]string) int{}
