package main

// RECONF: an instance holds configuration only (C09) — after a first Compute, the exported configuration of a
// *used* instance A is overwritten with that of a fresh donor instance B (as a user re-assigning exported fields
// would), and the second Compute on A is reported next to the Compute of another fresh instance configured like B.
// mode "replace": every exported top-level field of A is assigned from the donor (sub-objects are replaced);
// mode "inplace": exported leaf fields are assigned recursively, keeping A's own sub-objects.

import (
	"fmt"
	"reflect"
	"strings"
	"sync"
	"time"
	"unsafe"

	"github.com/cinar/indicator/v2/strategy"
)

var reconfMu sync.Mutex

// configuration that the pinned tree keeps in unexported fields (set by the constructors only): part of the
// configuration that the donor hands over.  Any other unexported field is state, which an instance must not carry.
var pinnedUnexportedConfig = map[string]map[string]bool{
	"Hma":              {"wma1": true, "wma2": true, "wma3": true},
	"Po":               {"mls": true, "min": true, "max": true},
	"AndStrategy":      {"name": true},
	"OrStrategy":       {"name": true},
	"MajorityStrategy": {"name": true},
}

func baseTypeName(t reflect.Type) string {
	n := t.Name()
	if i := strings.Index(n, "["); i >= 0 {
		n = n[:i]
	}
	return n
}

func copyExported(dst, src reflect.Value, inplace bool, depth int) {
	if depth > 24 || dst.Type() != src.Type() {
		return
	}
	switch dst.Kind() {
	case reflect.Ptr, reflect.Interface:
		if dst.IsNil() || src.IsNil() {
			if dst.CanSet() {
				dst.Set(src)
			}
			return
		}
		de, se := dst.Elem(), src.Elem()
		if inplace && de.Type() == se.Type() && (de.Kind() == reflect.Struct || de.Kind() == reflect.Ptr) {
			copyExported(de, se, inplace, depth+1)
			return
		}
		if dst.CanSet() {
			dst.Set(src)
		}
	case reflect.Struct:
		t := dst.Type()
		for i := 0; i < t.NumField(); i++ {
			if !t.Field(i).IsExported() {
				if pinnedUnexportedConfig[baseTypeName(t)][t.Field(i).Name] && dst.Field(i).CanAddr() {
					d := reflect.NewAt(t.Field(i).Type, unsafe.Pointer(dst.Field(i).UnsafeAddr())).Elem()
					s := reflect.NewAt(t.Field(i).Type, unsafe.Pointer(src.Field(i).UnsafeAddr())).Elem()
					d.Set(s)
				}
				continue
			}
			df, sf := dst.Field(i), src.Field(i)
			if !df.CanSet() {
				continue
			}
			if inplace && (df.Kind() == reflect.Ptr || df.Kind() == reflect.Interface || df.Kind() == reflect.Struct) {
				copyExported(df, sf, inplace, depth+1)
			} else {
				df.Set(sf)
			}
		}
	default:
		if dst.CanSet() {
			dst.Set(src)
		}
	}
}

func reconfigure(a, donor any, inplace bool) bool {
	va, vb := reflect.ValueOf(a), reflect.ValueOf(donor)
	if va.Kind() != reflect.Ptr || vb.Kind() != reflect.Ptr || va.Type() != vb.Type() || va.IsNil() || vb.IsNil() {
		return false
	}
	if va.Elem().Kind() != reflect.Struct {
		return false
	}
	copyExported(va.Elem(), vb.Elem(), inplace, 0)
	return true
}

// RECONF <IND|STRAT> <nameA> <nsA> <fsA> <nameB> <nsB> <fsB> <replace|inplace> <streams1>/<streams2>
func runReconf(a []string) (result string) {
	defer func() {
		if r := recover(); r != nil {
			result = fmt.Sprintf("panic %v", r)
		}
	}()
	if len(a) != 9 {
		return "ERR bad-command"
	}
	kind := a[0]
	nA, e1 := parseInts(a[2])
	fA, e2 := parseFloats(a[3])
	nB, e3 := parseInts(a[5])
	fB, e4 := parseFloats(a[6])
	if e1 != nil || e2 != nil || e3 != nil || e4 != nil {
		return "ERR parse"
	}
	inplace := a[7] == "inplace"
	literal := a[7] == "literal" // A becomes a zero struct literal that is then given the donor's configuration field by field
	var envs [][][]float64
	for _, s := range splitSlash(a[8]) {
		env, err := parseStreams(s)
		if err != nil {
			return "ERR parse"
		}
		envs = append(envs, env)
	}
	if len(envs) != 2 {
		return "ERR parse"
	}
	one := func(env [][]float64, name string, n []int, f []float64, inst instFn, strat strategy.Strategy) string {
		r := &obsRun{}
		if e := startPipeline(r, kind, name, n, f, env, 0, pacing{0}, inst, strat); e != "" {
			return e
		}
		verdict, detail := r.wait(20 * time.Second)
		if verdict != "ok" {
			return verdict + ":" + detail
		}
		return showOuts(r.outs())
	}
	if kind == "IND" {
		ctorA, ok1 := indCtors[a[1]]
		ctorB, ok2 := indCtors[a[4]]
		if !ok1 || !ok2 {
			return "ERR unknown-indicator"
		}
		reconfMu.Lock()
		instA := ctorA(nA, fA)
		objA := tracked
		_ = ctorB(nB, fB)
		donor := tracked
		fresh := ctorB(nB, fB)
		reconfMu.Unlock()
		first := one(envs[0], a[1], nA, fA, instA, nil)
		if literal {
			zeroOut(objA)
		}
		if !reconfigure(objA, donor, inplace) {
			return "ERR not-reconfigurable"
		}
		second := one(envs[1], a[1], nA, fA, instA, nil)
		ref := one(envs[1], a[4], nB, fB, fresh, nil)
		// instances are independent of each other: one built now with A's original configuration behaves as A did at first
		again := one(envs[0], a[1], nA, fA, ctorA(nA, fA), nil)
		return "ok " + first + " | " + second + " | " + ref + " | " + again
	}
	sA, e := reportStrategy(a[1], nA, fA)
	if sA == nil {
		return e
	}
	donor, e := reportStrategy(a[4], nB, fB)
	if donor == nil {
		return e
	}
	fresh, _ := reportStrategy(a[4], nB, fB)
	first := one(envs[0], a[1], nA, fA, nil, sA)
	if literal {
		zeroOut(sA)
	}
	if !reconfigure(sA, donor, inplace) {
		return "ERR not-reconfigurable"
	}
	second := one(envs[1], a[1], nA, fA, nil, sA)
	ref := one(envs[1], a[4], nB, fB, nil, fresh)
	// instances are independent of each other: one built now with A's original configuration behaves as A did at first
	sA2, _ := reportStrategy(a[1], nA, fA)
	again := one(envs[0], a[1], nA, fA, nil, sA2)
	return "ok " + first + " | " + second + " | " + ref + " | " + again
}

func zeroOut(a any) {
	v := reflect.ValueOf(a)
	if v.Kind() == reflect.Ptr && !v.IsNil() && v.Elem().CanSet() {
		v.Elem().Set(reflect.Zero(v.Elem().Type()))
	}
}

func splitSlash(s string) []string {
	var out []string
	cur := ""
	for _, ch := range s {
		if ch == '/' {
			out = append(out, cur)
			cur = ""
		} else {
			cur += string(ch)
		}
	}
	return append(out, cur)
}

func init() {
	extraHandlers["RECONF"] = runReconf
}
