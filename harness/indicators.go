package main

// Registry of the 61 Compute methods: name + integer configuration + numeric parameters
// -> output streams and the declared IdlePeriod() (-1 when the type has no such method).

import (
	"github.com/cinar/indicator/v2/helper"
	"github.com/cinar/indicator/v2/momentum"
	"github.com/cinar/indicator/v2/trend"
	"github.com/cinar/indicator/v2/volatility"
	"github.com/cinar/indicator/v2/volume"
)

type indFn func(n []int, f []float64, in []<-chan float64) ([]<-chan float64, int)

func outs(cs ...<-chan float64) []<-chan float64 { return cs }

func maOf(kind, p int) trend.Ma[float64] {
	switch kind {
	case 0:
		return trend.NewSmaWithPeriod[float64](p)
	case 1:
		return trend.NewEmaWithPeriod[float64](p)
	case 2, 3: // Rma has no String method and is not a trend.Ma
		return trend.NewSmmaWithPeriod[float64](p)
	case 4:
		return trend.NewWmaWith[float64](p)
	default:
		return trend.NewHmaWithPeriod[float64](p)
	}
}

var indicatorArity = map[string]int{}

// instFn is Compute on one (possibly reused) instance
type instFn func(in []<-chan float64) ([]<-chan float64, int)

var indicators = map[string]indFn{}

// tracked is the instance built by the most recent indCtors call (used by RECONF to reach its exported fields)
var tracked any

func track(x any) { tracked = x }

func init() {
	for name, ctor := range indCtors {
		ctor := ctor
		indicators[name] = func(n []int, f []float64, in []<-chan float64) ([]<-chan float64, int) {
			return ctor(n, f)(in)
		}
	}
}

// indCtors: build and configure one instance; the returned closure calls Compute on that instance
var indCtors = map[string]func(n []int, f []float64) instFn{
	"Apo": func(n []int, f []float64) instFn {
		x := trend.NewApo[float64]()
		x.FastPeriod, x.SlowPeriod = n[0], n[1]
		if len(f) > 1 {
			x.FastSmoothing, x.SlowSmoothing = f[0], f[1]
		}
		track(x)
		return func(in []<-chan float64) ([]<-chan float64, int) {
			return outs(x.Compute(in[0])), -1
		}
	},
	"Aroon": func(n []int, f []float64) instFn {
		x := trend.NewAroon[float64]()
		x.Period = n[0]
		track(x)
		return func(in []<-chan float64) ([]<-chan float64, int) {
			a, b := x.Compute(in[0], in[1])
			return outs(a, b), -1
		}
	},
	"Bop": func(n []int, f []float64) instFn {
		x := trend.NewBop[float64]()
		track(x)
		return func(in []<-chan float64) ([]<-chan float64, int) {
			return outs(x.Compute(in[0], in[1], in[2], in[3])), -1
		}
	},
	"Cci": func(n []int, f []float64) instFn {
		x := trend.NewCciWithPeriod[float64](n[0])
		track(x)
		return func(in []<-chan float64) ([]<-chan float64, int) {
			return outs(x.Compute(in[0], in[1], in[2])), x.IdlePeriod()
		}
	},
	"Dema": func(n []int, f []float64) instFn {
		x := trend.NewDema[float64]()
		x.Ema1.Period, x.Ema2.Period = n[0], n[1]
		track(x)
		return func(in []<-chan float64) ([]<-chan float64, int) {
			return outs(x.Compute(in[0])), x.IdlePeriod()
		}
	},
	"Ema": func(n []int, f []float64) instFn {
		x := trend.NewEmaWithPeriod[float64](n[0])
		if len(f) > 0 {
			x.Smoothing = f[0]
		}
		track(x)
		return func(in []<-chan float64) ([]<-chan float64, int) {
			return outs(x.Compute(in[0])), x.IdlePeriod()
		}
	},
	"Envelope": func(n []int, f []float64) instFn {
		x := trend.NewEnvelope[float64](maOf(n[0], n[1]), f[0])
		track(x)
		return func(in []<-chan float64) ([]<-chan float64, int) {
			a, b, c := x.Compute(in[0])
			return outs(a, b, c), x.IdlePeriod()
		}
	},
	"Hma": func(n []int, f []float64) instFn {
		x := trend.NewHmaWithPeriod[float64](n[0])
		track(x)
		return func(in []<-chan float64) ([]<-chan float64, int) {
			return outs(x.Compute(in[0])), x.IdlePeriod()
		}
	},
	"Kama": func(n []int, f []float64) instFn {
		x := trend.NewKamaWith[float64](n[0], n[1], n[2])
		track(x)
		return func(in []<-chan float64) ([]<-chan float64, int) {
			return outs(x.Compute(in[0])), x.IdlePeriod()
		}
	},
	"Kdj": func(n []int, f []float64) instFn {
		x := trend.NewKdj[float64]()
		x.MovingMax.Period, x.MovingMin.Period, x.Sma1.Period, x.Sma2.Period = n[0], n[0], n[1], n[2]
		track(x)
		return func(in []<-chan float64) ([]<-chan float64, int) {
			a, b, c := x.Compute(in[0], in[1], in[2])
			return outs(a, b, c), x.IdlePeriod()
		}
	},
	"Macd": func(n []int, f []float64) instFn {
		x := trend.NewMacdWithPeriod[float64](n[0], n[1], n[2])
		track(x)
		return func(in []<-chan float64) ([]<-chan float64, int) {
			a, b := x.Compute(in[0])
			return outs(a, b), x.IdlePeriod()
		}
	},
	"MassIndex": func(n []int, f []float64) instFn {
		x := trend.NewMassIndex[float64]()
		x.Ema1.Period, x.Ema2.Period, x.MovingSum.Period = n[0], n[1], n[2]
		track(x)
		return func(in []<-chan float64) ([]<-chan float64, int) {
			return outs(x.Compute(in[0], in[1])), x.IdlePeriod()
		}
	},
	"Mlr": func(n []int, f []float64) instFn {
		x := trend.NewMlrWithPeriod[float64](n[0])
		track(x)
		return func(in []<-chan float64) ([]<-chan float64, int) {
			return outs(x.Compute(in[0], in[1])), x.IdlePeriod()
		}
	},
	"Mls": func(n []int, f []float64) instFn {
		x := trend.NewMlsWithPeriod[float64](n[0])
		track(x)
		return func(in []<-chan float64) ([]<-chan float64, int) {
			a, b := x.Compute(in[0], in[1])
			return outs(a, b), x.IdlePeriod()
		}
	},
	"MovingMax": func(n []int, f []float64) instFn {
		x := trend.NewMovingMaxWithPeriod[float64](n[0])
		track(x)
		return func(in []<-chan float64) ([]<-chan float64, int) {
			return outs(x.Compute(in[0])), x.IdlePeriod()
		}
	},
	"MovingMin": func(n []int, f []float64) instFn {
		x := trend.NewMovingMinWithPeriod[float64](n[0])
		track(x)
		return func(in []<-chan float64) ([]<-chan float64, int) {
			return outs(x.Compute(in[0])), x.IdlePeriod()
		}
	},
	"MovingSum": func(n []int, f []float64) instFn {
		x := trend.NewMovingSumWithPeriod[float64](n[0])
		track(x)
		return func(in []<-chan float64) ([]<-chan float64, int) {
			return outs(x.Compute(in[0])), x.IdlePeriod()
		}
	},
	"Rma": func(n []int, f []float64) instFn {
		x := trend.NewRmaWithPeriod[float64](n[0])
		track(x)
		return func(in []<-chan float64) ([]<-chan float64, int) {
			return outs(x.Compute(in[0])), x.IdlePeriod()
		}
	},
	"Sma": func(n []int, f []float64) instFn {
		x := trend.NewSmaWithPeriod[float64](n[0])
		track(x)
		return func(in []<-chan float64) ([]<-chan float64, int) {
			return outs(x.Compute(in[0])), x.IdlePeriod()
		}
	},
	"Smma": func(n []int, f []float64) instFn {
		x := trend.NewSmmaWithPeriod[float64](n[0])
		track(x)
		return func(in []<-chan float64) ([]<-chan float64, int) {
			return outs(x.Compute(in[0])), x.IdlePeriod()
		}
	},
	"Tema": func(n []int, f []float64) instFn {
		x := trend.NewTema[float64]()
		x.Ema1.Period, x.Ema2.Period, x.Ema3.Period = n[0], n[1], n[2]
		track(x)
		return func(in []<-chan float64) ([]<-chan float64, int) {
			return outs(x.Compute(in[0])), x.IdlePeriod()
		}
	},
	"Trima": func(n []int, f []float64) instFn {
		x := trend.NewTrima[float64]()
		x.Period = n[0]
		track(x)
		return func(in []<-chan float64) ([]<-chan float64, int) {
			return outs(x.Compute(in[0])), x.IdlePeriod()
		}
	},
	"Trix": func(n []int, f []float64) instFn {
		x := trend.NewTrix[float64]()
		x.Period = n[0]
		track(x)
		return func(in []<-chan float64) ([]<-chan float64, int) {
			return outs(x.Compute(in[0])), x.IdlePeriod()
		}
	},
	"Tsi": func(n []int, f []float64) instFn {
		x := trend.NewTsiWith[float64](n[0], n[1])
		track(x)
		return func(in []<-chan float64) ([]<-chan float64, int) {
			return outs(x.Compute(in[0])), x.IdlePeriod()
		}
	},
	"TypicalPrice": func(n []int, f []float64) instFn {
		x := trend.NewTypicalPrice[float64]()
		track(x)
		return func(in []<-chan float64) ([]<-chan float64, int) {
			return outs(x.Compute(in[0], in[1], in[2])), -1
		}
	},
	"Vwma": func(n []int, f []float64) instFn {
		x := trend.NewVwma[float64]()
		x.Period = n[0]
		track(x)
		return func(in []<-chan float64) ([]<-chan float64, int) {
			return outs(x.Compute(in[0], in[1])), x.IdlePeriod()
		}
	},
	"WeightedClose": func(n []int, f []float64) instFn {
		x := trend.NewWeightedClose[float64]()
		track(x)
		return func(in []<-chan float64) ([]<-chan float64, int) {
			return outs(x.Compute(in[0], in[1], in[2])), x.IdlePeriod()
		}
	},
	"Wma": func(n []int, f []float64) instFn {
		x := trend.NewWmaWith[float64](n[0])
		track(x)
		return func(in []<-chan float64) ([]<-chan float64, int) {
			return outs(x.Compute(in[0])), x.IdlePeriod()
		}
	},
	// momentum
	"AwesomeOscillator": func(n []int, f []float64) instFn {
		x := momentum.NewAwesomeOscillator[float64]()
		x.ShortSma.Period, x.LongSma.Period = n[0], n[1]
		track(x)
		return func(in []<-chan float64) ([]<-chan float64, int) {
			return outs(x.Compute(in[0], in[1])), x.IdlePeriod()
		}
	},
	"ChaikinOscillator": func(n []int, f []float64) instFn {
		x := momentum.NewChaikinOscillator[float64]()
		x.ShortEma.Period, x.LongEma.Period = n[0], n[1]
		track(x)
		return func(in []<-chan float64) ([]<-chan float64, int) {
			a, b := x.Compute(in[0], in[1], in[2], in[3])
			return outs(a, b), x.IdlePeriod()
		}
	},
	"IchimokuCloud": func(n []int, f []float64) instFn {
		x := momentum.NewIchimokuCloud[float64]()
		x.ConversionMax.Period, x.ConversionMin.Period = n[0], n[0]
		x.BaseMax.Period, x.BaseMin.Period = n[1], n[1]
		x.LeadingMax.Period, x.LeadingMin.Period = n[2], n[2]
		x.LaggingPeriod = n[3]
		track(x)
		return func(in []<-chan float64) ([]<-chan float64, int) {
			a, b, c, d, e := x.Compute(in[0], in[1], in[2])
			return outs(a, b, c, d, e), x.IdlePeriod()
		}
	},
	"Ppo": func(n []int, f []float64) instFn {
		x := momentum.NewPpo[float64]()
		x.ShortEma.Period, x.LongEma.Period, x.SignalEma.Period = n[0], n[1], n[2]
		track(x)
		return func(in []<-chan float64) ([]<-chan float64, int) {
			a, b, c := x.Compute(in[0])
			return outs(a, b, c), x.IdlePeriod()
		}
	},
	"Pvo": func(n []int, f []float64) instFn {
		x := momentum.NewPvo[float64]()
		x.ShortEma.Period, x.LongEma.Period, x.SignalEma.Period = n[0], n[1], n[2]
		track(x)
		return func(in []<-chan float64) ([]<-chan float64, int) {
			a, b, c := x.Compute(in[0])
			return outs(a, b, c), x.IdlePeriod()
		}
	},
	"Qstick": func(n []int, f []float64) instFn {
		x := momentum.NewQstick[float64]()
		x.Sma.Period = n[0]
		track(x)
		return func(in []<-chan float64) ([]<-chan float64, int) {
			return outs(x.Compute(in[0], in[1])), x.IdlePeriod()
		}
	},
	"Rsi": func(n []int, f []float64) instFn {
		x := momentum.NewRsiWithPeriod[float64](n[0])
		track(x)
		return func(in []<-chan float64) ([]<-chan float64, int) {
			return outs(x.Compute(in[0])), x.IdlePeriod()
		}
	},
	"StochasticOscillator": func(n []int, f []float64) instFn {
		x := momentum.NewStochasticOscillator[float64]()
		x.Max.Period, x.Min.Period, x.Sma.Period = n[0], n[0], n[1]
		track(x)
		return func(in []<-chan float64) ([]<-chan float64, int) {
			a, b := x.Compute(in[0], in[1], in[2])
			return outs(a, b), x.IdlePeriod()
		}
	},
	"StochasticRsi": func(n []int, f []float64) instFn {
		x := momentum.NewStochasticRsiWithPeriod[float64](n[0])
		track(x)
		return func(in []<-chan float64) ([]<-chan float64, int) {
			return outs(x.Compute(in[0])), x.IdlePeriod()
		}
	},
	// StochasticRsi whose RSI period n[0] differs from the min/max look-back n[1]
	"StochasticRsiG": func(n []int, f []float64) instFn {
		x := momentum.NewStochasticRsiWithPeriod[float64](n[1])
		x.Rsi = momentum.NewRsiWithPeriod[float64](n[0])
		track(x)
		return func(in []<-chan float64) ([]<-chan float64, int) {
			return outs(x.Compute(in[0])), x.IdlePeriod()
		}
	},
	"WilliamsR": func(n []int, f []float64) instFn {
		x := momentum.NewWilliamsR[float64]()
		x.Max.Period, x.Min.Period = n[0], n[0]
		track(x)
		return func(in []<-chan float64) ([]<-chan float64, int) {
			return outs(x.Compute(in[0], in[1], in[2])), x.IdlePeriod()
		}
	},
	// volatility
	"AccelerationBands": func(n []int, f []float64) instFn {
		x := volatility.NewAccelerationBands[float64]()
		x.Period = n[0]
		track(x)
		return func(in []<-chan float64) ([]<-chan float64, int) {
			a, b, c := x.Compute(in[0], in[1], in[2])
			return outs(a, b, c), x.IdlePeriod()
		}
	},
	"Atr": func(n []int, f []float64) instFn {
		x := volatility.NewAtrWithMa[float64](maOf(n[0], n[1]))
		track(x)
		return func(in []<-chan float64) ([]<-chan float64, int) {
			return outs(x.Compute(in[0], in[1], in[2])), x.IdlePeriod()
		}
	},
	"BollingerBandWidth": func(n []int, f []float64) instFn {
		x := volatility.NewBollingerBandWidth[float64]()
		x.BollingerBands.Period = n[0]
		track(x)
		return func(in []<-chan float64) ([]<-chan float64, int) {
			return outs(x.Compute(in[0])), x.IdlePeriod()
		}
	},
	"BollingerBands": func(n []int, f []float64) instFn {
		x := volatility.NewBollingerBandsWithPeriod[float64](n[0])
		track(x)
		return func(in []<-chan float64) ([]<-chan float64, int) {
			a, b, c := x.Compute(in[0])
			return outs(a, b, c), x.IdlePeriod()
		}
	},
	"ChandelierExit": func(n []int, f []float64) instFn {
		x := volatility.NewChandelierExit[float64]()
		x.Period, x.Multiplier = n[0], f[0]
		track(x)
		return func(in []<-chan float64) ([]<-chan float64, int) {
			a, b := x.Compute(in[0], in[1], in[2])
			return outs(a, b), x.IdlePeriod()
		}
	},
	"DonchianChannel": func(n []int, f []float64) instFn {
		x := volatility.NewDonchianChannelWithPeriod[float64](n[0])
		track(x)
		return func(in []<-chan float64) ([]<-chan float64, int) {
			a, b, c := x.Compute(in[0])
			return outs(a, b, c), x.IdlePeriod()
		}
	},
	"KeltnerChannel": func(n []int, f []float64) instFn {
		x := volatility.NewKeltnerChannelWithPeriod[float64](n[0])
		track(x)
		return func(in []<-chan float64) ([]<-chan float64, int) {
			a, b, c := x.Compute(in[0], in[1], in[2])
			return outs(a, b, c), x.IdlePeriod()
		}
	},
	// KeltnerChannel with its public components configured separately: ATR over moving average n[0] of period n[1], EMA of period n[2]
	"KeltnerChannelG": func(n []int, f []float64) instFn {
		x := volatility.NewKeltnerChannel[float64]()
		x.Atr = volatility.NewAtrWithMa[float64](maOf(n[0], n[1]))
		x.Ema = trend.NewEmaWithPeriod[float64](n[2])
		track(x)
		return func(in []<-chan float64) ([]<-chan float64, int) {
			a, b, c := x.Compute(in[0], in[1], in[2])
			return outs(a, b, c), x.IdlePeriod()
		}
	},
	"MovingStd": func(n []int, f []float64) instFn {
		x := volatility.NewMovingStdWithPeriod[float64](n[0])
		track(x)
		return func(in []<-chan float64) ([]<-chan float64, int) {
			return outs(x.Compute(in[0])), x.IdlePeriod()
		}
	},
	"PercentB": func(n []int, f []float64) instFn {
		x := volatility.NewPercentBWithPeriod[float64](n[0])
		track(x)
		return func(in []<-chan float64) ([]<-chan float64, int) {
			return outs(x.Compute(in[0])), x.IdlePeriod()
		}
	},
	"Po": func(n []int, f []float64) instFn {
		x := volatility.NewPoWithPeriod[float64](n[0])
		track(x)
		return func(in []<-chan float64) ([]<-chan float64, int) {
			return outs(x.Compute(in[0], in[1], in[2])), x.IdlePeriod()
		}
	},
	"SuperTrend": func(n []int, f []float64) instFn {
		x := volatility.NewSuperTrendWithMa[float64](maOf(n[0], n[1]), f[0])
		track(x)
		return func(in []<-chan float64) ([]<-chan float64, int) {
			return outs(x.Compute(in[0], in[1], in[2])), x.IdlePeriod()
		}
	},
	"UlcerIndex": func(n []int, f []float64) instFn {
		x := volatility.NewUlcerIndex[float64]()
		x.Period = n[0]
		track(x)
		return func(in []<-chan float64) ([]<-chan float64, int) {
			return outs(x.Compute(in[0])), x.IdlePeriod()
		}
	},
	// volume
	"Ad": func(n []int, f []float64) instFn {
		x := volume.NewAd[float64]()
		track(x)
		return func(in []<-chan float64) ([]<-chan float64, int) {
			return outs(x.Compute(in[0], in[1], in[2], in[3])), x.IdlePeriod()
		}
	},
	"Cmf": func(n []int, f []float64) instFn {
		x := volume.NewCmfWithPeriod[float64](n[0])
		track(x)
		return func(in []<-chan float64) ([]<-chan float64, int) {
			return outs(x.Compute(in[0], in[1], in[2], in[3])), x.IdlePeriod()
		}
	},
	"Emv": func(n []int, f []float64) instFn {
		x := volume.NewEmvWithPeriod[float64](n[0])
		track(x)
		return func(in []<-chan float64) ([]<-chan float64, int) {
			return outs(x.Compute(in[0], in[1], in[2])), x.IdlePeriod()
		}
	},
	"Fi": func(n []int, f []float64) instFn {
		x := volume.NewFiWithPeriod[float64](n[0])
		track(x)
		return func(in []<-chan float64) ([]<-chan float64, int) {
			return outs(x.Compute(in[0], in[1])), x.IdlePeriod()
		}
	},
	"Mfi": func(n []int, f []float64) instFn {
		x := volume.NewMfi[float64]()
		x.Sum.Period = n[0]
		track(x)
		return func(in []<-chan float64) ([]<-chan float64, int) {
			return outs(x.Compute(in[0], in[1], in[2], in[3])), x.IdlePeriod()
		}
	},
	"Mfm": func(n []int, f []float64) instFn {
		x := volume.NewMfm[float64]()
		track(x)
		return func(in []<-chan float64) ([]<-chan float64, int) {
			return outs(x.Compute(in[0], in[1], in[2])), x.IdlePeriod()
		}
	},
	"Mfv": func(n []int, f []float64) instFn {
		x := volume.NewMfv[float64]()
		track(x)
		return func(in []<-chan float64) ([]<-chan float64, int) {
			return outs(x.Compute(in[0], in[1], in[2], in[3])), x.IdlePeriod()
		}
	},
	"Nvi": func(n []int, f []float64) instFn {
		x := volume.NewNvi[float64]()
		x.Initial = f[0]
		track(x)
		return func(in []<-chan float64) ([]<-chan float64, int) {
			return outs(x.Compute(in[0], in[1])), x.IdlePeriod()
		}
	},
	"Obv": func(n []int, f []float64) instFn {
		x := volume.NewObv[float64]()
		track(x)
		return func(in []<-chan float64) ([]<-chan float64, int) {
			return outs(x.Compute(in[0], in[1])), x.IdlePeriod()
		}
	},
	"Vpt": func(n []int, f []float64) instFn {
		x := volume.NewVpt[float64]()
		track(x)
		return func(in []<-chan float64) ([]<-chan float64, int) {
			return outs(x.Compute(in[0], in[1])), x.IdlePeriod()
		}
	},
	"Vwap": func(n []int, f []float64) instFn {
		x := volume.NewVwapWithPeriod[float64](n[0])
		track(x)
		return func(in []<-chan float64) ([]<-chan float64, int) {
			return outs(x.Compute(in[0], in[1])), x.IdlePeriod()
		}
	},
}

var _ = helper.Abs[float64]
