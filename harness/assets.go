package main

// C10 (repositories), C11 (codecs), C12 (sync), C13 (backtest), C19 (malformed data).

import (
	"bytes"
	"database/sql"
	"database/sql/driver"
	"encoding/csv"
	"encoding/hex"
	"encoding/json"
	"errors"
	"fmt"
	"html"
	"io"
	"log/slog"
	"math"
	"math/rand"
	"net/http"
	"net/http/httptest"
	"os"
	"path/filepath"
	"reflect"
	"regexp"
	"runtime"
	"sort"
	"strconv"
	"strings"
	"sync"
	"sync/atomic"
	"time"
	_ "time/tzdata"

	"github.com/cinar/indicator/v2/asset"
	"github.com/cinar/indicator/v2/backtest"
	"github.com/cinar/indicator/v2/helper"
	"github.com/cinar/indicator/v2/strategy"
)

var quiet = slog.New(slog.NewTextHandler(io.Discard, nil))

func init() { slog.SetDefault(quiet) }

var epoch2000 = time.Date(2000, 1, 1, 0, 0, 0, 0, time.UTC)

// dates are day numbers: by default whole UTC days from 2000-01-01; the "memtz" repositories use local midnights in a
// zone that observes daylight saving (2023-03-01 America/New_York, so that day 11 is the 23-hour spring-forward day)
var dateEpoch = epoch2000

func dayToTime(d int) time.Time { return dateEpoch.AddDate(0, 0, d) }
func timeToDay(t time.Time) int {
	t = t.In(dateEpoch.Location())
	a := time.Date(t.Year(), t.Month(), t.Day(), 0, 0, 0, 0, time.UTC)
	b := time.Date(dateEpoch.Year(), dateEpoch.Month(), dateEpoch.Day(), 0, 0, 0, 0, time.UTC)
	return int(math.Round(a.Sub(b).Hours() / 24))
}

// snapshot with a serial number hidden in its prices, so that every appended snapshot is distinguishable
func mkSnap(day, serial int) *asset.Snapshot {
	f := float64(serial)
	return &asset.Snapshot{Date: dayToTime(day), Open: f + 0.25, High: f + 0.75, Low: f + 0.125, Close: f + 0.5, Volume: f * 100}
}

func snapID(s *asset.Snapshot) string {
	ser := s.Close - 0.5
	ok := s.Open == ser+0.25 && s.High == ser+0.75 && s.Low == ser+0.125 && s.Volume == ser*100
	if !ok {
		return fmt.Sprintf("%d.CORRUPT", timeToDay(s.Date))
	}
	return fmt.Sprintf("%d.%d", timeToDay(s.Date), int(ser))
}

// ---------------------------------------------------------------- fake database/sql driver
type fakeRow struct {
	name string
	date time.Time
	vals [5]float64
}
type fakeDB struct {
	mu   sync.Mutex
	rows []fakeRow
}

var fakeDBs sync.Map // url -> *fakeDB

type fakeDriver struct{}
type fakeConn struct{ db *fakeDB }
type fakeStmt struct {
	db *fakeDB
	q  string
}
type fakeRows struct {
	cols []string
	data [][]driver.Value
	i    int
}

func (fakeDriver) Open(url string) (driver.Conn, error) {
	v, _ := fakeDBs.LoadOrStore(url, &fakeDB{})
	return &fakeConn{db: v.(*fakeDB)}, nil
}
func (c *fakeConn) Prepare(q string) (driver.Stmt, error) { return &fakeStmt{db: c.db, q: q}, nil }
func (c *fakeConn) Close() error                          { return nil }
func (c *fakeConn) Begin() (driver.Tx, error)             { return nil, errors.New("no tx") }
func (s *fakeStmt) Close() error                          { return nil }
func (s *fakeStmt) NumInput() int                         { return -1 }
func (s *fakeStmt) Exec(args []driver.Value) (driver.Result, error) {
	s.db.mu.Lock()
	defer s.db.mu.Unlock()
	switch s.q {
	case "CREATE":
		return driver.RowsAffected(0), nil
	case "DROP":
		s.db.rows = nil
		return driver.RowsAffected(0), nil
	case "APPEND":
		r := fakeRow{name: args[0].(string), date: args[1].(time.Time)}
		for i := 0; i < 5; i++ {
			r.vals[i] = args[2+i].(float64)
		}
		s.db.rows = append(s.db.rows, r)
		return driver.RowsAffected(1), nil
	}
	return nil, errors.New("bad exec " + s.q)
}
func (s *fakeStmt) Query(args []driver.Value) (driver.Rows, error) {
	s.db.mu.Lock()
	defer s.db.mu.Unlock()
	switch s.q {
	case "ASSETS":
		seen := map[string]bool{}
		var names []string
		for _, r := range s.db.rows {
			if !seen[r.name] {
				seen[r.name] = true
				names = append(names, r.name)
			}
		}
		sort.Strings(names)
		fr := &fakeRows{cols: []string{"name"}}
		for _, n := range names {
			fr.data = append(fr.data, []driver.Value{n})
		}
		return fr, nil
	case "GETSINCE":
		name, since := args[0].(string), args[1].(time.Time)
		fr := &fakeRows{cols: []string{"date", "open", "high", "low", "close", "volume"}}
		for _, r := range s.db.rows {
			if r.name == name && !r.date.Before(since) {
				fr.data = append(fr.data, []driver.Value{r.date, r.vals[0], r.vals[1], r.vals[2], r.vals[3], r.vals[4]})
			}
		}
		return fr, nil
	case "LASTDATE":
		name := args[0].(string)
		fr := &fakeRows{cols: []string{"date"}}
		var last *fakeRow
		for i := range s.db.rows {
			if s.db.rows[i].name == name {
				last = &s.db.rows[i]
			}
		}
		if last != nil {
			fr.data = append(fr.data, []driver.Value{last.date})
		}
		return fr, nil
	}
	return nil, errors.New("bad query " + s.q)
}
func (r *fakeRows) Columns() []string { return r.cols }
func (r *fakeRows) Close() error      { return nil }
func (r *fakeRows) Next(dest []driver.Value) error {
	if r.i >= len(r.data) {
		return io.EOF
	}
	copy(dest, r.data[r.i])
	r.i++
	return nil
}

type fakeDialect struct{}

func (fakeDialect) CreateTable() string { return "CREATE" }
func (fakeDialect) DropTable() string   { return "DROP" }
func (fakeDialect) Assets() string      { return "ASSETS" }
func (fakeDialect) GetSince() string    { return "GETSINCE" }
func (fakeDialect) LastDate() string    { return "LASTDATE" }
func (fakeDialect) Append() string      { return "APPEND" }

var registerFake sync.Once
var dbCounter atomic.Int64
var repoCounter atomic.Int64

// lastRepoDir is the directory of the file-system repository created last (one REPO line runs at a time per process)
var lastRepoDir string

func newRepo(impl string) (asset.Repository, func(), error) {
	switch impl {
	case "mem", "memtz":
		// alternately built directly and through the factory the command-line tools use
		if repoCounter.Add(1)%2 == 0 {
			if r, err := asset.NewRepository(asset.InMemoryRepositoryBuilderName, ""); err == nil {
				return r, func() {}, nil
			}
		}
		return asset.NewInMemoryRepository(), func() {}, nil
	case "fs", "fsw":
		dir, err := os.MkdirTemp("", "ivrepo")
		if err != nil {
			return nil, nil, err
		}
		lastRepoDir = dir
		if repoCounter.Add(1)%2 == 0 {
			if r, err := asset.NewRepository(asset.FileSystemRepositoryBuilderName, dir); err == nil {
				return r, func() { os.RemoveAll(dir) }, nil
			}
		}
		return asset.NewFileSystemRepository(dir), func() { os.RemoveAll(dir) }, nil
	case "sql":
		registerFake.Do(func() { sql.Register("ivfake", fakeDriver{}) })
		url := fmt.Sprintf("db%d", dbCounter.Add(1))
		r, err := asset.NewSQLRepository("ivfake", url, fakeDialect{})
		if err != nil {
			return nil, nil, err
		}
		return r, func() { r.Close(); fakeDBs.Delete(url) }, nil
	}
	return nil, nil, errors.New("unknown impl")
}

func readSnaps(c <-chan *asset.Snapshot) string {
	var ids []string
	for s := range c {
		ids = append(ids, snapID(s))
	}
	return "ok:" + strings.Join(ids, ",")
}

func runRepo(impl, opsS string) (result string) {
	defer func() {
		if r := recover(); r != nil {
			result = fmt.Sprintf("panic %v", r)
		}
	}()
	repo, cleanup, err := newRepo(impl)
	if err != nil {
		return "ERR " + err.Error()
	}
	defer cleanup()
	repoDir := lastRepoDir
	if impl == "fsw" {
		// the process runs in a time zone west of UTC: whole-day UTC dates must come back unchanged
		old := time.Local
		time.Local = time.FixedZone("west", -5*3600)
		defer func() { time.Local = old }()
	}
	serial := 0
	var out []string
	for _, op := range strings.Split(opsS, ";") {
		f := strings.Split(op, ":")
		switch f[0] {
		case "z":
			// an asset that exists without content: a zero-byte file put there from outside (file system), an empty append (others)
			if impl == "fs" || impl == "fsw" {
				path := filepath.Join(repoDir, f[1]+".csv")
				if _, err := os.Stat(path); err == nil {
					out = append(out, "ok")
					break
				}
				if err := os.WriteFile(path, nil, 0o644); err != nil {
					out = append(out, "err")
				} else {
					out = append(out, "ok")
				}
			} else if err := repo.Append(f[1], helper.SliceToChan([]*asset.Snapshot{})); err != nil {
				out = append(out, "err")
			} else {
				out = append(out, "ok")
			}
		case "c":
			// copy inside one repository: Append(dst, Get(src)) — the source stream is still open while the target is written
			c, err := repo.Get(f[1])
			if err != nil {
				out = append(out, "err")
				break
			}
			done := make(chan error, 1)
			go func() { done <- repo.Append(f[2], c) }()
			select {
			case e := <-done:
				if e != nil {
					out = append(out, "err")
				} else {
					out = append(out, "ok")
				}
			case <-time.After(5 * time.Second):
				out = append(out, "hang")
				return "ok " + strings.Join(out, ";")
			}
		case "a":
			var snaps []*asset.Snapshot
			if len(f) > 2 && f[2] != "" {
				for _, d := range strings.Split(f[2], ",") {
					day, _ := strconv.Atoi(d)
					serial++
					snaps = append(snaps, mkSnap(day, serial))
				}
			}
			if err := repo.Append(f[1], helper.SliceToChan(snaps)); err != nil {
				out = append(out, "err")
			} else {
				out = append(out, "ok")
			}
		case "g":
			c, err := repo.Get(f[1])
			if err != nil {
				out = append(out, "err")
			} else {
				out = append(out, readSnaps(c))
			}
		case "s":
			day, _ := strconv.Atoi(f[2])
			c, err := repo.GetSince(f[1], dayToTime(day))
			if err != nil {
				out = append(out, "err")
			} else {
				out = append(out, readSnaps(c))
			}
		case "P":
			// two Append calls on one asset that overlap in time (always the last operation of a history): the first one's stream is
			// produced slowly, the second one starts and returns in between; once both have returned the asset holds all snapshots
			mk := func(spec string) []*asset.Snapshot {
				var l []*asset.Snapshot
				if spec != "" {
					for _, d := range strings.Split(spec, ",") {
						day, _ := strconv.Atoi(d)
						serial++
						l = append(l, mkSnap(day, serial))
					}
				}
				return l
			}
			parts := strings.SplitN(f[2], "/", 2)
			slow, quick := mk(parts[0]), mk(parts[1])
			sc := make(chan *asset.Snapshot)
			slowDone := make(chan error, 1)
			go func() { slowDone <- repo.Append(f[1], sc) }()
			if len(slow) > 0 {
				sc <- slow[0]
			}
			quickErr := repo.Append(f[1], helper.SliceToChan(quick))
			for _, x := range slow[min(1, len(slow)):] {
				sc <- x
			}
			close(sc)
			var slowErr error
			select {
			case slowErr = <-slowDone:
			case <-time.After(5 * time.Second):
				out = append(out, "hang")
				return "ok " + strings.Join(out, ";")
			}
			if quickErr != nil || slowErr != nil {
				out = append(out, "err")
				break
			}
			c, err := repo.Get(f[1])
			if err != nil {
				out = append(out, "err")
				break
			}
			var ids []string
			for x := range c {
				ids = append(ids, snapID(x))
			}
			sort.Strings(ids)
			out = append(out, "ok:"+strings.Join(ids, ","))
		case "S":
			// a bound with a time of day (as cmd/indicator-sync computes it): the snapshot of that day's midnight lies before it
			day, _ := strconv.Atoi(f[2])
			c, err := repo.GetSince(f[1], dayToTime(day).Add(13*time.Hour+7*time.Minute))
			if err != nil {
				out = append(out, "err")
			} else {
				out = append(out, readSnaps(c))
			}
		case "L":
			// the asset's file becomes a symbolic link to a file kept elsewhere (a shared data directory): still the same asset
			if impl == "fs" || impl == "fsw" {
				path := filepath.Join(repoDir, f[1]+".csv")
				if fi, err := os.Lstat(path); err == nil && fi.Mode().IsRegular() {
					linkDir := repoDir + "_links"
					os.MkdirAll(linkDir, 0o755)
					defer os.RemoveAll(linkDir)
					target := filepath.Join(linkDir, fmt.Sprintf("%s_%d.csv", f[1], len(out)))
					if err := os.Rename(path, target); err == nil {
						if err := os.Symlink(target, path); err != nil {
							os.Rename(target, path)
						}
					}
				}
			}
			out = append(out, "ok")
		case "l":
			t, err := repo.LastDate(f[1])
			if err != nil {
				out = append(out, "err")
			} else {
				out = append(out, fmt.Sprintf("ok:%d", timeToDay(t)))
			}
		case "A":
			names, err := repo.Assets()
			if err != nil {
				out = append(out, "err")
			} else {
				sort.Strings(names)
				out = append(out, "ok:"+strings.Join(names, ","))
			}
		default:
			out = append(out, "bad")
		}
	}
	return "ok " + strings.Join(out, ";")
}

// ---------------------------------------------------------------- C11 codecs
type allKinds struct {
	S   string
	B   bool
	I   int
	I8  int8
	I16 int16
	I32 int32
	I64 int64
	U   uint
	U16 uint16
	U32 uint32
	U64 uint64
	F32 float32
	F64 float64 `header:"Float Sixty Four"`
	T   time.Time
	D   time.Time `format:"2006-01-02"`
	// a column that is renamed AND has its own layout (milliseconds, no zone)
	TM time.Time `header:"Stamp (ms)" format:"2006-01-02T15:04:05.000"`
}

var nastyStrings = []string{"", "plain", "with,comma", "with \"quotes\"", "line\nbreak", " leading", "trailing ", "ünïcödé ✓", "a,b\"c\nd", "\t", "'",
	"#1 ranked", "#", "cr\r\nlf", "lone\rcr", "\\.", "; semi", "=1+1", "\"", "\"\"", "a\n", "\nb", "-", "0x10", "NaN", "null", "true"}

const nastyAlphabet = "#,\"' \n\t;=-+@\\/|ab01.:<>&%"

func nastyString(r *rand.Rand) string {
	if r.Intn(3) > 0 {
		return nastyStrings[r.Intn(len(nastyStrings))]
	}
	n := 1 + r.Intn(6)
	b := make([]byte, n)
	for i := range b {
		b[i] = nastyAlphabet[r.Intn(len(nastyAlphabet))]
	}
	return string(b)
}

func genAllKinds(r *rand.Rand) *allKinds {
	pick := func(ext []int64, lo, hi int64) int64 {
		if r.Intn(3) == 0 {
			return ext[r.Intn(len(ext))]
		}
		return lo + r.Int63n(hi-lo+1)
	}
	fl := func() float64 {
		switch r.Intn(7) {
		case 0:
			return math.Float64frombits(r.Uint64()&0x7fefffffffffffff | uint64(r.Intn(2))<<63) // any finite
		case 1:
			return []float64{0, math.Copysign(0, -1), math.MaxFloat64, -math.MaxFloat64, math.SmallestNonzeroFloat64, 0.1, 1e-320, 1e300, 123456789.123456789}[r.Intn(9)]
		case 2:
			return float64(r.Int63n(1<<53)) / 64
		default:
			return r.NormFloat64() * math.Pow(10, float64(r.Intn(20)-10))
		}
	}
	return &allKinds{
		S: nastyString(r), B: r.Intn(2) == 0,
		I:   int(pick([]int64{math.MinInt64, math.MaxInt64, 0, -1}, -1000, 1000)),
		I8:  int8(pick([]int64{math.MinInt8, math.MaxInt8, 0}, -100, 100)),
		I16: int16(pick([]int64{math.MinInt16, math.MaxInt16}, -1000, 1000)),
		I32: int32(pick([]int64{math.MinInt32, math.MaxInt32}, -100000, 100000)),
		I64: pick([]int64{math.MinInt64, math.MaxInt64}, -1e12, 1e12),
		U:   uint(r.Uint64() >> uint(r.Intn(64))), U16: uint16(r.Intn(1 << 16)), U32: r.Uint32(),
		U64: []uint64{0, math.MaxUint64, r.Uint64()}[r.Intn(3)],
		F32: finite32(fl()), F64: fl(),
		T: time.Date(2000+r.Intn(60), time.Month(1+r.Intn(12)), 1+r.Intn(28), r.Intn(24), r.Intn(60), r.Intn(60), 0, time.UTC),
		D: time.Date(2000+r.Intn(60), time.Month(1+r.Intn(12)), 1+r.Intn(28), 0, 0, 0, 0, time.UTC),
		TM: time.Date(2000+r.Intn(60), time.Month(1+r.Intn(12)), 1+r.Intn(28), r.Intn(24), r.Intn(60), r.Intn(60), r.Intn(1000)*1000000, time.UTC),
	}
}

func sameAllKinds(a, b *allKinds) string {
	va, vb := reflect.ValueOf(*a), reflect.ValueOf(*b)
	for i := 0; i < va.NumField(); i++ {
		name := va.Type().Field(i).Name
		switch x := va.Field(i).Interface().(type) {
		case float64:
			y := vb.Field(i).Interface().(float64)
			if math.Float64bits(x) != math.Float64bits(y) && !(x == 0 && y == 0 && false) {
				return fmt.Sprintf("%s %v != %v", name, x, y)
			}
		case float32:
			y := vb.Field(i).Interface().(float32)
			if math.Float32bits(x) != math.Float32bits(y) {
				return fmt.Sprintf("%s %v != %v", name, x, y)
			}
		case time.Time:
			if !x.Equal(vb.Field(i).Interface().(time.Time)) {
				return fmt.Sprintf("%s %v != %v", name, x, vb.Field(i).Interface())
			}
		default:
			if !reflect.DeepEqual(x, vb.Field(i).Interface()) {
				return fmt.Sprintf("%s %v != %v", name, x, vb.Field(i).Interface())
			}
		}
	}
	return ""
}

// CSVRT seed n perm extras : write n rows, optionally permute the columns / add extra columns in the file, read back
// crlfOnly: the only difference is that encoding/csv dropped the carriage returns in front of line feeds
func crlfOnly(want, got *allKinds) bool {
	if !strings.Contains(want.S, "\r\n") || got.S != strings.ReplaceAll(want.S, "\r\n", "\n") {
		return false
	}
	w := *want
	w.S = got.S
	return sameAllKinds(&w, got) == ""
}

func runCsvRT(args []string) (result string) {
	defer func() {
		if r := recover(); r != nil {
			result = fmt.Sprintf("panic %v", r)
		}
	}()
	seed, _ := strconv.ParseInt(args[0], 10, 64)
	n, _ := strconv.Atoi(args[1])
	perm, _ := strconv.Atoi(args[2])
	extras, _ := strconv.Atoi(args[3])
	r := rand.New(rand.NewSource(seed))
	rows := make([]*allKinds, n)
	for i := range rows {
		rows[i] = genAllKinds(r)
	}
	dir, err := os.MkdirTemp("", "ivcsv")
	if err != nil {
		return "ERR " + err.Error()
	}
	defer os.RemoveAll(dir)
	file := filepath.Join(dir, "t.csv")
	c, err := helper.NewCsv[allKinds](true)
	if err != nil {
		return "ERR " + err.Error()
	}
	c.Logger = quiet
	if err := c.WriteToFile(file, helper.SliceToChan(rows)); err != nil {
		return "ERR write " + err.Error()
	}
	if perm != 0 || extras != 0 {
		raw, _ := os.ReadFile(file)
		recs, err := csv.NewReader(bytes.NewReader(raw)).ReadAll()
		if err != nil {
			return "ERR reparse " + err.Error()
		}
		ncol := len(recs[0])
		order := r.Perm(ncol)
		if perm == 0 {
			for i := range order {
				order[i] = i
			}
		}
		var buf bytes.Buffer
		w := csv.NewWriter(&buf)
		for ri, rec := range recs {
			out := make([]string, 0, ncol+extras)
			for _, j := range order {
				out = append(out, rec[j])
			}
			for e := 0; e < extras; e++ {
				if ri == 0 {
					out = append(out, fmt.Sprintf("Extra%d", e))
				} else {
					out = append(out, "junk,\"x")
				}
			}
			// put extras in front half of the time
			if extras > 0 && seed%2 == 0 {
				out = append(out[ncol:], out[:ncol]...)
			}
			w.Write(out)
		}
		w.Flush()
		os.WriteFile(file, buf.Bytes(), 0o600)
	}
	c2, _ := helper.NewCsv[allKinds](true)
	c2.Logger = quiet
	ch, err := c2.ReadFromFile(file)
	if err != nil {
		return "ERR read " + err.Error()
	}
	got := helper.ChanToSlice(ch)
	if len(got) != len(rows) {
		return fmt.Sprintf("diff count %d != %d", len(got), len(rows))
	}
	crlf := 0
	for i := range rows {
		if d := sameAllKinds(rows[i], got[i]); d != "" {
			if crlfOnly(rows[i], got[i]) {
				crlf++
				got[i].S = rows[i].S
				continue
			}
			return fmt.Sprintf("diff row %d %s", i, d)
		}
	}
	// the instance that has just read a (possibly permuted / extended) header writes the rows to a new file,
	// appends to it, and a fresh instance reads them back
	file2 := filepath.Join(dir, "t2.csv")
	if err := c2.WriteToFile(file2, helper.SliceToChan(got)); err != nil {
		return "ERR rewrite " + err.Error()
	}
	if n > 0 {
		if err := c2.AppendToFile(file2, helper.SliceToChan(got[:1])); err != nil {
			return "ERR reappend " + err.Error()
		}
	}
	c3, _ := helper.NewCsv[allKinds](true)
	c3.Logger = quiet
	ch3, err := c3.ReadFromFile(file2)
	if err != nil {
		return "ERR reread " + err.Error()
	}
	again := helper.ChanToSlice(ch3)
	want := rows
	if n > 0 {
		want = append(append([]*allKinds{}, rows...), rows[0])
	}
	if len(again) != len(want) {
		return fmt.Sprintf("diff rewrite count %d != %d", len(again), len(want))
	}
	for i := range want {
		if d := sameAllKinds(want[i], again[i]); d != "" && !crlfOnly(want[i], again[i]) {
			return fmt.Sprintf("diff rewrite row %d %s", i, d)
		}
	}
	// the instance that read the permuted / extended header now reads the file in declaration order (another header layout),
	// and the instance that read that one reads the permuted file: columns are mapped by the header of the file being read
	for _, rr := range []struct {
		inst *helper.Csv[allKinds]
		path string
		want []*allKinds
		tag  string
	}{{c2, file2, want, "second-layout"}, {c3, file, rows, "first-layout"}} {
		chx, err := rr.inst.ReadFromFile(rr.path)
		if err != nil {
			return "ERR reread-" + rr.tag + " " + err.Error()
		}
		gx := helper.ChanToSlice(chx)
		if len(gx) != len(rr.want) {
			return fmt.Sprintf("diff reused-reader %s count %d != %d", rr.tag, len(gx), len(rr.want))
		}
		for i := range rr.want {
			if d := sameAllKinds(rr.want[i], gx[i]); d != "" && !crlfOnly(rr.want[i], gx[i]) {
				return fmt.Sprintf("diff reused-reader %s row %d %s", rr.tag, i, d)
			}
		}
	}
	// other row shapes: only strings (a row whose fields are all empty is still a row) and headers that differ in letter case only
	{
		type strRow struct {
			A, B, C string
		}
		type caseRow struct {
			Open float64
			OPEN float64 `header:"OPEN"`
			Adj  string  `header:"Adj Close"`
			Adj2 string  `header:"adj close"`
		}
		srows := make([]*strRow, n+2)
		for i := range srows {
			srows[i] = &strRow{nastyString(r), nastyString(r), nastyString(r)}
			if i%3 == 1 {
				srows[i] = &strRow{}
			}
		}
		sf := filepath.Join(dir, "s.csv")
		sc, _ := helper.NewCsv[strRow](true)
		sc.Logger = quiet
		if err := sc.WriteToFile(sf, helper.SliceToChan(srows)); err != nil {
			return "ERR write-strings " + err.Error()
		}
		sch, err := sc.ReadFromFile(sf)
		if err != nil {
			return "ERR read-strings " + err.Error()
		}
		sg := helper.ChanToSlice(sch)
		if len(sg) != len(srows) {
			return fmt.Sprintf("diff string-rows count %d != %d", len(sg), len(srows))
		}
		for i := range srows {
			w, g := *srows[i], *sg[i]
			fix := func(x string) string { return strings.ReplaceAll(x, "\r\n", "\n") }
			if fix(w.A) != fix(g.A) || fix(w.B) != fix(g.B) || fix(w.C) != fix(g.C) {
				return fmt.Sprintf("diff string-row %d %q != %q", i, g, w)
			}
		}
		crows := make([]*caseRow, n+1)
		for i := range crows {
			crows[i] = &caseRow{float64(i) + 1.5, float64(i) + 2.5, fmt.Sprintf("a%d", i), fmt.Sprintf("b%d", i)}
		}
		cf := filepath.Join(dir, "c.csv")
		cc, _ := helper.NewCsv[caseRow](true)
		cc.Logger = quiet
		if err := cc.WriteToFile(cf, helper.SliceToChan(crows)); err != nil {
			return "ERR write-case " + err.Error()
		}
		cch, err := cc.ReadFromFile(cf)
		if err != nil {
			return "ERR read-case " + err.Error()
		}
		cg := helper.ChanToSlice(cch)
		if len(cg) != len(crows) {
			return fmt.Sprintf("diff case-rows count %d != %d", len(cg), len(crows))
		}
		for i := range crows {
			if *cg[i] != *crows[i] {
				return fmt.Sprintf("diff case-row %d %v != %v", i, *cg[i], *crows[i])
			}
		}
	}
	// … and a narrower file (the column "I" is absent): a reader that has seen wider headers before must leave the field at zero
	{
		raw, _ := os.ReadFile(file2)
		recs, err := csv.NewReader(bytes.NewReader(raw)).ReadAll()
		if err == nil && len(recs) > 0 {
			drop := -1
			for j, h := range recs[0] {
				if h == "I" {
					drop = j
				}
			}
			if drop >= 0 {
				var buf bytes.Buffer
				w := csv.NewWriter(&buf)
				for _, rec := range recs {
					w.Write(append(append([]string{}, rec[:drop]...), rec[drop+1:]...))
				}
				w.Flush()
				file3 := filepath.Join(dir, "t3.csv")
				os.WriteFile(file3, buf.Bytes(), 0o600)
				for _, inst := range []*helper.Csv[allKinds]{c2, c3} {
					chn, err := inst.ReadFromFile(file3)
					if err != nil {
						return "ERR read-narrow " + err.Error()
					}
					gn := helper.ChanToSlice(chn)
					if len(gn) != len(want) {
						return fmt.Sprintf("diff narrower-file count %d != %d", len(gn), len(want))
					}
					for i := range want {
						w2 := *want[i]
						w2.I = 0
						if d := sameAllKinds(&w2, gn[i]); d != "" && !crlfOnly(&w2, gn[i]) {
							return fmt.Sprintf("diff narrower-file row %d %s", i, d)
						}
					}
				}
			}
		}
	}
	return fmt.Sprintf("ok %d crlf=%d", n, crlf)
}

func finite32(x float64) float32 {
	f := float32(x)
	if math.IsInf(float64(f), 0) {
		return math.MaxFloat32
	}
	return f
}

// census runs f and reports how many goroutines are still alive afterwards beyond the starting count
func census(f func() string) string {
	before := runtime.NumGoroutine()
	res := f()
	extra := 0
	for i := 0; i < 100; i++ {
		extra = runtime.NumGoroutine() - before
		if extra <= 0 {
			break
		}
		time.Sleep(2 * time.Millisecond)
	}
	if extra > 0 {
		return fmt.Sprintf("%s leak=%d", res, extra)
	}
	return res
}

type idRow struct {
	ID   int
	Note string
}

// CSVFILE ops : w:k | a:k | aw:k | r  on one file; rows carry increasing ids
func runCsvFile(args []string) (result string) {
	defer func() {
		if r := recover(); r != nil {
			result = fmt.Sprintf("panic %v", r)
		}
	}()
	dir, err := os.MkdirTemp("", "ivcsvf")
	if err != nil {
		return "ERR " + err.Error()
	}
	defer os.RemoveAll(dir)
	file := filepath.Join(dir, "f.csv")
	next := 0
	mk := func(k int) <-chan *idRow {
		rows := make([]*idRow, k)
		for i := range rows {
			next++
			rows[i] = &idRow{ID: next, Note: strings.Repeat("x", next%7)}
		}
		return helper.SliceToChan(rows)
	}
	var out []string
	for _, op := range strings.Split(args[0], ";") {
		f := strings.Split(op, ":")
		k := 0
		if len(f) > 1 {
			k, _ = strconv.Atoi(f[1])
		}
		c, _ := helper.NewCsv[idRow](true)
		c.Logger = quiet
		switch f[0] {
		case "w":
			err = c.WriteToFile(file, mk(k))
		case "a":
			err = c.AppendToFile(file, mk(k))
		case "aw":
			err = helper.AppendOrWriteToCsvFile(file, true, mk(k))
		case "z": // make it an empty (0 byte) file
			err = os.WriteFile(file, nil, 0o600)
		case "r":
			ch, e := helper.ReadFromCsvFile[idRow](file, true)
			if e != nil {
				out = append(out, "rerr")
				continue
			}
			var ids []string
			for row := range ch {
				ids = append(ids, strconv.Itoa(row.ID))
			}
			out = append(out, "r="+strings.Join(ids, ","))
			continue
		}
		if err != nil {
			out = append(out, "err")
		} else {
			out = append(out, "ok")
		}
	}
	return "ok " + strings.Join(out, ";")
}

func runJSONRT(args []string) (result string) {
	defer func() {
		if r := recover(); r != nil {
			result = fmt.Sprintf("panic %v", r)
		}
	}()
	seed, _ := strconv.ParseInt(args[0], 10, 64)
	n, _ := strconv.Atoi(args[1])
	r := rand.New(rand.NewSource(seed))
	rows := make([]allKinds, n)
	for i := range rows {
		rows[i] = *genAllKinds(r)
		rows[i].F32 = float32(math.Float32frombits(math.Float32bits(rows[i].F32)))
	}
	var buf bytes.Buffer
	if err := helper.ChanToJSON(helper.SliceToChan(rows), &buf); err != nil {
		return "ERR " + err.Error()
	}
	got := helper.ChanToSlice(helper.JSONToChanWithLogger[allKinds](&buf, quiet))
	if len(got) != n {
		return fmt.Sprintf("diff count %d != %d", len(got), n)
	}
	for i := range rows {
		if d := sameAllKinds(&rows[i], &got[i]); d != "" {
			return fmt.Sprintf("diff row %d %s", i, d)
		}
	}
	if d := jsonShapesRT(r, n); d != "" {
		return "diff " + d
	}
	return fmt.Sprintf("ok %d", n)
}

// element types other than flat structs: optional fields, maps, slices, pointers, nested structs
type jsonShape struct {
	A int            `json:"a,omitempty"`
	S string         `json:"s,omitempty"`
	M map[string]int `json:"m,omitempty"`
	L []int          `json:"l,omitempty"`
	P *float64       `json:"p,omitempty"`
	N *jsonShape     `json:"n,omitempty"`
}

func genShape(r *rand.Rand, depth int) jsonShape {
	var x jsonShape
	if r.Intn(2) == 0 {
		x.A = r.Intn(5)
	}
	if r.Intn(2) == 0 {
		x.S = nastyString(r)
	}
	if r.Intn(2) == 0 {
		x.M = map[string]int{}
		for i, k := 0, r.Intn(3); i <= k; i++ {
			x.M[string(rune('a'+r.Intn(5)))] = r.Intn(9)
		}
	}
	if r.Intn(2) == 0 {
		for i, k := 0, r.Intn(4); i <= k; i++ {
			x.L = append(x.L, r.Intn(9))
		}
	}
	if r.Intn(2) == 0 {
		v := float64(r.Intn(100)) / 8
		x.P = &v
	}
	if depth > 0 && r.Intn(3) == 0 {
		n := genShape(r, depth-1)
		x.N = &n
	}
	return x
}

func jsonShapesRT(r *rand.Rand, n int) string {
	shapes := make([]jsonShape, n)
	for i := range shapes {
		shapes[i] = genShape(r, 2)
	}
	want, _ := json.Marshal(shapes)
	var buf bytes.Buffer
	if err := helper.ChanToJSON(helper.SliceToChan(shapes), &buf); err != nil {
		return "shapes " + err.Error()
	}
	got := helper.ChanToSlice(helper.JSONToChanWithLogger[jsonShape](&buf, quiet))
	back, _ := json.Marshal(got)
	if n == 0 {
		if len(got) != 0 {
			return "shapes count"
		}
		return ""
	}
	if !bytes.Equal(want, back) {
		return fmt.Sprintf("shapes %s != %s", trunc(string(back), 120), trunc(string(want), 120))
	}
	maps := make([]map[string]int, n)
	for i := range maps {
		maps[i] = map[string]int{string(rune('a' + i%7)): i}
	}
	want, _ = json.Marshal(maps)
	buf.Reset()
	if err := helper.ChanToJSON(helper.SliceToChan(maps), &buf); err != nil {
		return "maps " + err.Error()
	}
	gm := helper.ChanToSlice(helper.JSONToChanWithLogger[map[string]int](&buf, quiet))
	back, _ = json.Marshal(gm)
	if !bytes.Equal(want, back) {
		return fmt.Sprintf("maps %s != %s", trunc(string(back), 120), trunc(string(want), 120))
	}
	lists := make([][]int, n)
	for i := range lists {
		for j := 0; j <= i%4; j++ {
			lists[i] = append(lists[i], i*10+j)
		}
	}
	want, _ = json.Marshal(lists)
	buf.Reset()
	if err := helper.ChanToJSON(helper.SliceToChan(lists), &buf); err != nil {
		return "lists " + err.Error()
	}
	gl := helper.ChanToSlice(helper.JSONToChanWithLogger[[]int](&buf, quiet))
	back, _ = json.Marshal(gl)
	if !bytes.Equal(want, back) {
		return fmt.Sprintf("lists %s != %s", trunc(string(back), 120), trunc(string(want), 120))
	}
	// plain scalars as elements: strings (every control character, DEL, characters beyond the BMP), floats, integers at the extremes
	ctl := []string{"\a", "\v", "\x00", "\x01\x1f", "\x7f", "del\x7fmid", "\U0001F600", "\U000E0001", "tab\tnl\n", "\u2028\u2029", "<&>", "\\", "\"", ""}
	strs := make([]string, n)
	for i := range strs {
		if r.Intn(2) == 0 {
			strs[i] = ctl[r.Intn(len(ctl))]
		} else {
			strs[i] = nastyString(r)
		}
	}
	buf.Reset()
	if err := helper.ChanToJSON(helper.SliceToChan(strs), &buf); err != nil {
		return "strings " + err.Error()
	}
	gs := helper.ChanToSlice(helper.JSONToChanWithLogger[string](&buf, quiet))
	if len(gs) != len(strs) {
		return fmt.Sprintf("strings count %d != %d", len(gs), len(strs))
	}
	for i := range strs {
		if gs[i] != strs[i] {
			return fmt.Sprintf("strings element %d %q != %q", i, gs[i], strs[i])
		}
	}
	anys := make([]any, n)
	for i := range anys {
		switch r.Intn(3) {
		case 0:
			anys[i] = ctl[r.Intn(len(ctl))]
		case 1:
			anys[i] = float64(r.Intn(1000)) / 8
		default:
			anys[i] = r.Intn(2) == 0
		}
	}
	buf.Reset()
	if err := helper.ChanToJSON(helper.SliceToChan(anys), &buf); err != nil {
		return "anys " + err.Error()
	}
	ga := helper.ChanToSlice(helper.JSONToChanWithLogger[any](&buf, quiet))
	if len(ga) != len(anys) {
		return fmt.Sprintf("anys count %d != %d", len(ga), len(anys))
	}
	for i := range anys {
		if ga[i] != anys[i] {
			return fmt.Sprintf("anys element %d %v != %v", i, ga[i], anys[i])
		}
	}
	nums := make([]int64, n)
	for i := range nums {
		nums[i] = []int64{math.MaxInt64, math.MinInt64, 0, -1, 1 << 53, (1 << 53) + 1, int64(r.Intn(1000))}[r.Intn(7)]
	}
	buf.Reset()
	if err := helper.ChanToJSON(helper.SliceToChan(nums), &buf); err != nil {
		return "int64s " + err.Error()
	}
	gn := helper.ChanToSlice(helper.JSONToChanWithLogger[int64](&buf, quiet))
	if len(gn) != len(nums) {
		return fmt.Sprintf("int64s count %d != %d", len(gn), len(nums))
	}
	for i := range nums {
		if gn[i] != nums[i] {
			return fmt.Sprintf("int64s element %d %d != %d", i, gn[i], nums[i])
		}
	}
	return ""
}

func trunc(s string, n int) string {
	if len(s) > n {
		return s[:n]
	}
	return strings.ReplaceAll(s, " ", "_")
}

// ---------------------------------------------------------------- C19 malformed data
type badRow struct {
	Name  string
	Count int
	Value float64
	Flag  bool
}

func withTimeout(f func() string) string {
	done := make(chan string, 1)
	go func() {
		defer func() {
			if r := recover(); r != nil {
				done <- fmt.Sprintf("panic %v", r)
			}
		}()
		done <- f()
	}()
	select {
	case s := <-done:
		return s
	case <-time.After(curTimeout()):
		noteTimeout()
		return "timeout"
	}
}

// CSVBAD hasHeader hexbytes: rows delivered by the library vs the well-formed prefix computed with encoding/csv + strconv
func runCsvBad(args []string) string {
	hasHeader := args[0] == "1"
	raw, err := hex.DecodeString(args[1])
	if err != nil {
		return "ERR parse"
	}
	return withTimeout(func() string {
		c, _ := helper.NewCsv[badRow](hasHeader)
		c.Logger = quiet
		var got []string
		for row := range c.ReadFromReader(bytes.NewReader(raw)) {
			got = append(got, fmt.Sprintf("%q/%d/%x/%t", row.Name, row.Count, math.Float64bits(row.Value), row.Flag))
		}
		// oracle: the records of the well-formed prefix
		var want []string
		rd := csv.NewReader(bytes.NewReader(raw))
		idx := []int{0, 1, 2, 3}
		okHeader := true
		if hasHeader {
			h, err := rd.Read()
			if err != nil {
				okHeader = false
			} else {
				m := map[string]int{}
				for i, x := range h {
					m[x] = i
				}
				for i, name := range []string{"Name", "Count", "Value", "Flag"} {
					if j, ok := m[name]; ok {
						idx[i] = j
					} else {
						idx[i] = -1
					}
				}
			}
		}
		for okHeader {
			rec, err := rd.Read()
			if err != nil {
				break
			}
			var r badRow
			good := true
			for i, j := range idx {
				if j == -1 {
					continue
				}
				if j >= len(rec) {
					good = false
					break
				}
				switch i {
				case 0:
					r.Name = rec[j]
				case 1:
					v, e := strconv.ParseInt(rec[j], 10, strconv.IntSize)
					if e != nil {
						good = false
					}
					r.Count = int(v)
				case 2:
					v, e := strconv.ParseFloat(rec[j], 64)
					if e != nil {
						good = false
					}
					r.Value = v
				case 3:
					v, e := strconv.ParseBool(rec[j])
					if e != nil {
						good = false
					}
					r.Flag = v
				}
				if !good {
					break
				}
			}
			if !good {
				break
			}
			want = append(want, fmt.Sprintf("%q/%d/%x/%t", r.Name, r.Count, math.Float64bits(r.Value), r.Flag))
		}
		if strings.Join(got, "|") != strings.Join(want, "|") {
			return fmt.Sprintf("diff got=%d want=%d first-got=%v first-want=%v", len(got), len(want), firstOr(got), firstOr(want))
		}
		// the same reader instance is then given well-formed data: whatever the bytes before did, it must deliver the record and close
		good := "x,1,2.5,true\n"
		if hasHeader {
			good = "Name,Count,Value,Flag\n" + good
		}
		var after []string
		for row := range c.ReadFromReader(strings.NewReader(good)) {
			after = append(after, fmt.Sprintf("%q/%d/%x/%t", row.Name, row.Count, math.Float64bits(row.Value), row.Flag))
		}
		if len(after) != 1 || after[0] != fmt.Sprintf("%q/%d/%x/%t", "x", 1, math.Float64bits(2.5), true) {
			return fmt.Sprintf("diff reuse-after-malformed got=%v", after)
		}
		// a row type with a field the codec does not support (a defined type over time.Time): an error, never a panic or a hang
		nt, _ := helper.NewCsv[namedTimeRow](hasHeader)
		nt.Logger = quiet
		for range nt.ReadFromReader(bytes.NewReader(raw)) {
		}
		ntGood := "x,2024-01-02 00:00:00\n"
		if hasHeader {
			ntGood = "Name,When\n" + ntGood
		}
		for range nt.ReadFromReader(strings.NewReader(ntGood)) {
		}
		return fmt.Sprintf("ok %d", len(got))
	})
}

type stamp time.Time

type namedTimeRow struct {
	Name string
	When stamp
}

func firstOr(l []string) string {
	if len(l) == 0 {
		return "-"
	}
	return l[len(l)-1]
}

type jsonRow struct {
	A int    `json:"a"`
	B string `json:"b"`
}

func runJSONBad(args []string) string {
	raw, err := hex.DecodeString(args[0])
	if err != nil {
		return "ERR parse"
	}
	return withTimeout(func() string {
		var got []jsonRow
		for v := range helper.JSONToChanWithLogger[jsonRow](bytes.NewReader(raw), quiet) {
			got = append(got, v)
		}
		// oracle: the array decoded element by element, each into a fresh value, up to the first element that does not decode
		var want []jsonRow
		dec := json.NewDecoder(bytes.NewReader(raw))
		if t, err := dec.Token(); err == nil && t == json.Delim('[') {
			for dec.More() {
				var v jsonRow
				if err := dec.Decode(&v); err != nil {
					break
				}
				want = append(want, v)
			}
		}
		if len(got) != len(want) {
			return fmt.Sprintf("ok diff records=%d well-formed-prefix=%d", len(got), len(want))
		}
		for i := range want {
			if got[i] != want[i] {
				return fmt.Sprintf("ok diff record=%d got=%v want=%v", i, got[i], want[i])
			}
		}
		// the same document as a stream of maps and of slices-of-anything: every delivered element is its own value
		var gotM []map[string]any
		for v := range helper.JSONToChanWithLogger[map[string]any](bytes.NewReader(raw), quiet) {
			gotM = append(gotM, v)
		}
		var wantM []map[string]any
		dec = json.NewDecoder(bytes.NewReader(raw))
		if t, err := dec.Token(); err == nil && t == json.Delim('[') {
			for dec.More() {
				var v map[string]any
				if err := dec.Decode(&v); err != nil {
					break
				}
				wantM = append(wantM, v)
			}
		}
		if len(gotM) != len(wantM) {
			return fmt.Sprintf("ok diff map-records=%d well-formed-prefix=%d", len(gotM), len(wantM))
		}
		for i := range wantM {
			if !reflect.DeepEqual(gotM[i], wantM[i]) {
				return fmt.Sprintf("ok diff map-record=%d got=%v want=%v", i, gotM[i], wantM[i])
			}
		}
		return fmt.Sprintf("ok %d", len(got))
	})
}

// TIINGO status hexbody : GetSince + LastDate against a local server
func runTiingo(args []string) string {
	status, _ := strconv.Atoi(args[0])
	body, err := hex.DecodeString(args[1])
	if err != nil {
		return "ERR parse"
	}
	return withTimeout(func() string {
		srv := httptest.NewServer(http.HandlerFunc(func(w http.ResponseWriter, r *http.Request) {
			w.WriteHeader(status)
			w.Write(body)
		}))
		defer srv.Close()
		repo := asset.NewTiingoRepository("key")
		repo.BaseURL = srv.URL
		repo.Logger = quiet
		out := ""
		c, err := repo.GetSince("x", epoch2000)
		if err != nil {
			out = "since=err"
		} else {
			n := 0
			for range c {
				n++
			}
			// oracle: elements of the well-formed prefix, each decoded into a fresh value (unknown members are ignored, as encoding/json does)
			want := 0
			dec := json.NewDecoder(bytes.NewReader(body))
			if t, err := dec.Token(); err == nil && t == json.Delim('[') {
				for dec.More() {
					var v asset.TiingoEndOfDay
					if err := dec.Decode(&v); err != nil {
						break
					}
					want++
				}
			}
			out = fmt.Sprintf("since=ok:%d want=%d", n, want)
		}
		_, err = repo.LastDate("x")
		if err != nil {
			out += " last=err"
		} else {
			out += " last=ok"
		}
		return "ok " + out
	})
}

// ---------------------------------------------------------------- C12 sync
type faultyRepo struct {
	asset.Repository
	failGet, failAppend map[string]bool
}

func (f *faultyRepo) GetSince(name string, d time.Time) (<-chan *asset.Snapshot, error) {
	if f.failGet[name] {
		return nil, errors.New("injected source failure")
	}
	return f.Repository.GetSince(name, d)
}
func (f *faultyRepo) Append(name string, c <-chan *asset.Snapshot) error {
	if f.failAppend[name] {
		go helper.Drain(c)
		return errors.New("injected target failure")
	}
	return f.Repository.Append(name, c)
}

// zeroByteAssets: names marked "name:z" in the spec parsed last
var zeroByteAssets = map[string]bool{}

func parseSpec(spec string, serial *int) map[string][]*asset.Snapshot {
	zeroByteAssets = map[string]bool{}
	out := map[string][]*asset.Snapshot{}
	if spec == "-" || spec == "" {
		return out
	}
	for _, part := range strings.Split(spec, ";") {
		f := strings.Split(part, ":")
		var snaps []*asset.Snapshot
		if len(f) > 1 && f[1] == "z" { // the asset exists without content: a zero-byte file in a file-system target
			zeroByteAssets[f[0]] = true
			out[f[0]] = nil
			continue
		}
		if len(f) > 1 && f[1] != "" {
			for _, d := range strings.Split(f[1], ",") {
				day, _ := strconv.Atoi(d)
				*serial++
				snaps = append(snaps, mkSnap(day, *serial))
			}
		}
		out[f[0]] = snaps
	}
	return out
}

func setOf(s string) map[string]bool {
	m := map[string]bool{}
	if s != "-" && s != "" {
		for _, x := range strings.Split(s, ",") {
			m[x] = true
		}
	}
	return m
}

func dumpRepo(r asset.Repository, names []string) string {
	var parts []string
	for _, n := range names {
		c, err := r.Get(n)
		if err != nil {
			parts = append(parts, n+"=err")
			continue
		}
		parts = append(parts, n+"="+strings.TrimPrefix(readSnaps(c), "ok:"))
	}
	return strings.Join(parts, ";")
}

// SYNC workers defaultDay assets failSrc failTgt impl runs sourceSpec targetSpec
func runSync(args []string) string {
	workers, _ := strconv.Atoi(args[0])
	// "17h": the default start date has a time of day (as cmd/indicator-sync computes it from time.Now()); the snapshot dated
	// at that day's midnight lies before it
	defDay, _ := strconv.Atoi(strings.TrimSuffix(args[1], "h"))
	defTod := time.Duration(0)
	if strings.HasSuffix(args[1], "h") {
		defTod = 13*time.Hour + 7*time.Minute
	}
	dateEpoch = epoch2000
	if args[5] == "memtz" {
		if loc, err := time.LoadLocation("America/New_York"); err == nil {
			dateEpoch = time.Date(2023, 3, 1, 0, 0, 0, 0, loc)
		}
	}
	defer func() { dateEpoch = epoch2000 }()
	return withTimeout(func() string {
		serial := 0
		src := asset.NewInMemoryRepository()
		srcSpec := parseSpec(args[7], &serial)
		for n, s := range srcSpec {
			src.Append(n, helper.SliceToChan(s))
		}
		tgt, cleanup, err := newRepo(args[5])
		if err != nil {
			return "ERR " + err.Error()
		}
		defer cleanup()
		tgtSpec := parseSpec(args[8], &serial)
		var tnames []string
		for n := range tgtSpec {
			tnames = append(tnames, n)
		}
		sort.Strings(tnames)
		for _, n := range tnames {
			if zeroByteAssets[n] && args[5] == "fs" {
				os.WriteFile(filepath.Join(lastRepoDir, n+".csv"), nil, 0o644)
				continue
			}
			tgt.Append(n, helper.SliceToChan(tgtSpec[n]))
		}
		runs, _ := strconv.Atoi(args[6])
		var errs []string
		all := map[string]bool{}
		for n := range srcSpec {
			all[n] = true
		}
		for n := range tgtSpec {
			all[n] = true
		}
		for i := 0; i < runs; i++ {
			s := asset.NewSync()
			s.Workers, s.Delay, s.Logger = workers, 0, quiet
			if args[2] != "-" {
				s.Assets = strings.Split(args[2], ",")
				for _, n := range s.Assets {
					all[n] = true
				}
			}
			fs, ft := &faultyRepo{Repository: src, failGet: setOf(args[3])}, &faultyRepo{Repository: tgt, failAppend: setOf(args[4])}
			if i > 0 {
				// later runs: no injected faults (idempotence of a clean re-run)
				fs.failGet, ft.failAppend = nil, nil
			}
			if err := s.Run(fs, ft, dayToTime(defDay).Add(defTod)); err != nil {
				errs = append(errs, "t")
			} else {
				errs = append(errs, "f")
			}
		}
		var names []string
		for n := range all {
			names = append(names, n)
		}
		sort.Strings(names)
		return "ok err=" + strings.Join(errs, ",") + " | " + dumpRepo(tgt, names)
	})
}

// ---------------------------------------------------------------- C13 backtest
type recReport struct {
	mu     sync.Mutex
	events []string
	res    map[string]string
}

func (r *recReport) add(e string) { r.mu.Lock(); r.events = append(r.events, e); r.mu.Unlock() }
func (r *recReport) Begin(names []string, ss []strategy.Strategy) error {
	r.add("begin")
	return nil
}
func (r *recReport) AssetBegin(name string, ss []strategy.Strategy) error {
	r.add("ab:" + name)
	return nil
}
func (r *recReport) Write(name string, s strategy.Strategy, snaps <-chan *asset.Snapshot, actions <-chan strategy.Action, outcomes <-chan float64) error {
	go helper.Drain(snaps)
	var as []strategy.Action
	var os_ []float64
	var wg sync.WaitGroup
	wg.Add(2)
	go func() { defer wg.Done(); as = helper.ChanToSlice(actions) }()
	go func() { defer wg.Done(); os_ = helper.ChanToSlice(outcomes) }()
	wg.Wait()
	r.mu.Lock()
	r.events = append(r.events, "w:"+name+":"+s.Name())
	last := noOutcome
	if len(os_) > 0 {
		last = os_[len(os_)-1]
	}
	r.res[name+"/"+skey(s)] = fmt.Sprintf("%d,%s", len(as), hexOfFloat(last))
	r.mu.Unlock()
	return nil
}
func (r *recReport) AssetEnd(name string) error { r.add("ae:" + name); return nil }
func (r *recReport) End() error                 { r.add("end"); return nil }

func protocolOK(events []string, names []string, nstrat int) string {
	if len(events) == 0 || events[0] != "begin" || events[len(events)-1] != "end" {
		return "begin/end misplaced"
	}
	state := map[string]int{} // 0 none, 1 begun, 2 ended
	writes := map[string]int{}
	for _, e := range events[1 : len(events)-1] {
		f := strings.SplitN(e, ":", 3)
		switch f[0] {
		case "ab":
			if state[f[1]] != 0 {
				return "asset begun twice " + f[1]
			}
			state[f[1]] = 1
		case "w":
			if state[f[1]] != 1 {
				return "write outside asset " + f[1]
			}
			writes[f[1]]++
		case "ae":
			if state[f[1]] != 1 {
				return "asset end without begin " + f[1]
			}
			state[f[1]] = 2
		default:
			return "unexpected event " + e
		}
	}
	for _, n := range names {
		if state[n] != 2 || writes[n] != nstrat {
			return fmt.Sprintf("asset %s state %d writes %d", n, state[n], writes[n])
		}
	}
	// every asset that was begun (also one the repository does not know) gets its results and its end
	for n, st := range state {
		if st != 2 || writes[n] != nstrat {
			return fmt.Sprintf("asset %s begun but state %d writes %d", n, st, writes[n])
		}
	}
	return ""
}

// buyAt buys at snapshot k and holds: with slowly drifting prices the outcomes of buyAt k, k+1 … differ by far
// less than one hundredth of a percentage point
type buyAt struct{ k int }

func (b *buyAt) Name() string { return fmt.Sprintf("Buy At %d", b.k) }
func (b *buyAt) Compute(c <-chan *asset.Snapshot) <-chan strategy.Action {
	i := -1
	return helper.Map(c, func(*asset.Snapshot) strategy.Action {
		i++
		if i == b.k {
			return strategy.Buy
		}
		return strategy.Hold
	})
}
func (b *buyAt) Report(c <-chan *asset.Snapshot) *helper.Report {
	return strategy.NewBuyAndHoldStrategy().Report(c)
}

// noOutcome marks "the strategy saw no snapshot, there is no outcome at all": a value no outcome can take (outcomes are ≥ -1), so that
// it cannot be confused with an outcome that IS undefined (NaN)
var noOutcome = -2.0

// zeroTrader trades only on sessions that close at 0 (Buy, Sell, Buy, …): buying at 0 gives 1/0 = +Inf shares and selling them at 0
// gives a balance of Inf·0 — an outcome that is undefined (NaN) from there on
type zeroTrader struct{}

func (*zeroTrader) Name() string { return "Zero Trader" }
func (*zeroTrader) Compute(c <-chan *asset.Snapshot) <-chan strategy.Action {
	zeros := 0
	return helper.Map(c, func(s *asset.Snapshot) strategy.Action {
		if s.Close == 0 {
			zeros++
			if zeros%2 == 1 {
				return strategy.Buy
			}
			return strategy.Sell
		}
		return strategy.Hold
	})
}
func (*zeroTrader) Report(c <-chan *asset.Snapshot) *helper.Report {
	return strategy.NewBuyAndHoldStrategy().Report(c)
}

var btStrategies = map[string]func() strategy.Strategy{
	"zero": func() strategy.Strategy { return &zeroTrader{} },
	"at1":  func() strategy.Strategy { return &buyAt{1} },
	"at2":  func() strategy.Strategy { return &buyAt{2} },
	"at3":  func() strategy.Strategy { return &buyAt{3} },
	"at5":  func() strategy.Strategy { return &buyAt{5} },
	"bh":   func() strategy.Strategy { return strategy.NewBuyAndHoldStrategy() },
	"macd": func() strategy.Strategy { return strategies["Macd"]([]int{2, 4, 2}, nil) },
	"rsi":  func() strategy.Strategy { return strategies["Rsi"]([]int{3}, []float64{40, 60}) },
	"trix": func() strategy.Strategy { return strategies["Trix"]([]int{2}, nil) },
	"bop":  func() strategy.Strategy { return strategies["Bop"](nil, nil) },
	// two configurations of a strategy whose Name() does not mention its configuration
	"kdjA": func() strategy.Strategy { return strategies["Kdj"]([]int{3, 2, 2}, nil) },
	"kdjB": func() strategy.Strategy { return strategies["Kdj"]([]int{5, 3, 3}, nil) },
	"vwma": func() strategy.Strategy { return strategies["Vwma"]([]int{3}, nil) },
}

// strategies of the current BT run by identity: two members of the list may have the same Name()
var btIdx = map[strategy.Strategy]int{}
var btNameCount = map[string]int{}

func skey(s strategy.Strategy) string { return fmt.Sprintf("%s#%d", s.Name(), btIdx[s]) }

// BT workers report lastDays strategies seed nassets len
func runBacktest(args []string) string {
	workers, _ := strconv.Atoi(args[0])
	lastDays, _ := strconv.Atoi(args[2])
	seed, _ := strconv.ParseInt(args[4], 10, 64)
	nassets, _ := strconv.Atoi(args[5])
	length, _ := strconv.Atoi(args[6])
	return withTimeout(func() string {
		r := rand.New(rand.NewSource(seed))
		repo := asset.NewInMemoryRepository()
		today := time.Now().UTC().Truncate(24 * time.Hour)
		var names []string
		data := map[string][]*asset.Snapshot{}
		for a := 0; a < nassets; a++ {
			name := fmt.Sprintf("A%02d", a)
			names = append(names, name)
			n := length + r.Intn(5)
			price := 50 + r.Float64()*50
			var snaps []*asset.Snapshot
			for i := 0; i < n; i++ {
				price = math.Max(1, price+math.Round((r.Float64()-0.5)*6*64)/64)
				if seed%3 == 0 {
					// tight regime: prices drift by about 1e-6, outcomes of different strategies are nearly equal
					price = 100 + float64(a) + float64(i)*1e-6*float64(1+r.Intn(3)) + r.Float64()*1e-7
				}
				op := price + math.Round((r.Float64()-0.5)*64)/64
				back := 0
				if seed%5 == 0 && a == 0 {
					back = lastDays + n + 5 // a stale asset: every snapshot is older than the look-back window
				}
				snaps = append(snaps, &asset.Snapshot{Date: today.AddDate(0, 0, -(n-i)-back), Open: op, High: math.Max(op, price) + 1, Low: math.Max(0.5, math.Min(op, price)-1), Close: price, Volume: float64(100 + r.Intn(1000))})
			}
			if a == 0 && len(snaps) >= 6 && strings.Contains(","+args[3]+",", ",zero,") {
				// two consecutive sessions that close at 0 (a suspended listing): the zero trader's outcome becomes undefined
				snaps[len(snaps)-4].Close, snaps[len(snaps)-3].Close = 0, 0
				snaps[len(snaps)-4].Low, snaps[len(snaps)-3].Low = 0, 0
			}
			if seed%7 == 0 && a == nassets-1 && nassets > 1 {
				snaps = nil // an asset that is registered but has no snapshots at all
			}
			data[name] = snaps
			repo.Append(name, helper.SliceToChan(snaps))
		}
		var ss []strategy.Strategy
		btIdx, btNameCount = map[strategy.Strategy]int{}, map[string]int{}
		for i, k := range strings.Split(args[3], ",") {
			st := btStrategies[k]()
			ss = append(ss, st)
			btIdx[st] = i
			btNameCount[st.Name()]++
		}
		byName := map[string]string{}
		for _, st := range ss {
			byName[st.Name()] = skey(st)
		}
		// names the repository does not know (a typo in the asset list): logged and skipped, the others must still be reported
		runNames := append([]string(nil), names...)
		if seed%2 == 1 {
			for k := 0; k < 1+int(seed/2)%2; k++ {
				at := r.Intn(len(runNames) + 1)
				runNames = append(runNames[:at], append([]string{fmt.Sprintf("ZZMISS%d", k)}, runNames[at:]...)...)
			}
		}
		// expected: evaluating each strategy directly on the snapshots inside the look-back window
		since := time.Now().AddDate(0, 0, -lastDays)
		expect := map[string]string{}
		for _, name := range names {
			var win []*asset.Snapshot
			for _, s := range data[name] {
				if s.Date.Equal(since) || s.Date.After(since) {
					win = append(win, s)
				}
			}
			for _, s := range ss {
				acts, outs := strategy.ComputeWithOutcome(s, helper.SliceToChan(win))
				var as []strategy.Action
				var os_ []float64
				var wg sync.WaitGroup
				wg.Add(2)
				go func() { defer wg.Done(); as = helper.ChanToSlice(acts) }()
				go func() { defer wg.Done(); os_ = helper.ChanToSlice(outs) }()
				wg.Wait()
				last := noOutcome
				if len(os_) > 0 {
					last = os_[len(os_)-1]
				}
				expect[name+"/"+skey(s)] = fmt.Sprintf("%d,%s", len(as), hexOfFloat(last))
			}
		}
		keys := func(m map[string]string) []string {
			var k []string
			for x := range m {
				k = append(k, x)
			}
			sort.Strings(k)
			return k
		}
		switch args[1] {
		case "rec":
			rep := &recReport{res: map[string]string{}}
			bt := backtest.NewBacktest(repo, rep)
			bt.Names, bt.Strategies, bt.Workers, bt.LastDays, bt.Logger = runNames, ss, workers, lastDays, quiet
			if err := bt.Run(); err != nil {
				return "ok runerr"
			}
			if p := protocolOK(rep.events, names, len(ss)); p != "" {
				return "ok protocol:" + strings.ReplaceAll(p, " ", "_")
			}
			for _, k := range keys(expect) {
				if rep.res[k] != expect[k] {
					return fmt.Sprintf("ok mismatch:%s:%s!=%s", strings.ReplaceAll(k, " ", "_"), rep.res[k], expect[k])
				}
			}
			if len(rep.res) != len(expect) {
				return fmt.Sprintf("ok count:%d!=%d", len(rep.res), len(expect))
			}
			return fmt.Sprintf("ok fine pairs=%d events=%d", len(expect), len(rep.events))
		case "data":
			rep := backtest.NewDataReport()
			bt := backtest.NewBacktest(repo, rep)
			bt.Names, bt.Strategies, bt.Workers, bt.LastDays, bt.Logger = runNames, ss, workers, lastDays, quiet
			if err := bt.Run(); err != nil {
				return "ok runerr"
			}
			if seed%4 == 1 {
				// the same report object receives a second run: still exactly one result per pair
				if err := bt.Run(); err != nil {
					return "ok runerr"
				}
			}
			got := map[string]string{}
			total := 0
			for name, rs := range rep.Results {
				for _, x := range rs {
					total++
					got[name+"/"+skey(x.Strategy)] = fmt.Sprintf("%d,%s", len(x.Transactions), hexOfFloat(x.Outcome))
				}
			}
			if total != len(expect) {
				return fmt.Sprintf("ok count:%d!=%d", total, len(expect))
			}
			for _, k := range keys(expect) {
				e := expect[k]
				if strings.HasSuffix(e, ","+hexOfFloat(noOutcome)) {
					// no snapshot inside the window: the direct evaluation has no outcome at all; DataReport records 0 (nothing gained)
					e = strings.TrimSuffix(e, hexOfFloat(noOutcome)) + hexOfFloat(0)
				}
				if got[k] != e {
					return fmt.Sprintf("ok mismatch:%s:%s!=%s", strings.ReplaceAll(k, " ", "_"), got[k], e)
				}
			}
			return fmt.Sprintf("ok fine pairs=%d", len(expect))
		case "htmlbad":
			// the report cannot begin (its output directory is a regular file): Run has to return the error, nothing else may run
			f, err := os.CreateTemp("", "ivbtfile")
			if err != nil {
				return "ERR " + err.Error()
			}
			f.Close()
			defer os.Remove(f.Name())
			rep := backtest.NewHTMLReport(f.Name())
			rep.Logger = quiet
			bt := backtest.NewBacktest(repo, rep)
			bt.Names, bt.Strategies, bt.Workers, bt.LastDays, bt.Logger = runNames, ss, workers, lastDays, quiet
			if err := bt.Run(); err != nil {
				return "ok runerr"
			}
			return "ok run-succeeded-although-the-report-could-not-begin"
		case "htmlfull":
			// the per-strategy reports written by the HTML report with its own defaults: every page must exist and its
			// rows must be the snapshots of the look-back window (a suffix of them for reports that skip the warm-up)
			dir, err := os.MkdirTemp("", "ivbtf")
			if err != nil {
				return "ERR " + err.Error()
			}
			defer os.RemoveAll(dir)
			rep := backtest.NewHTMLReport(dir)
			rep.WriteStrategyReports = true
			rep.Logger = quiet
			bt := backtest.NewBacktest(repo, rep)
			bt.Names, bt.Strategies, bt.Workers, bt.LastDays, bt.Logger = runNames, ss, workers, lastDays, quiet
			if err := bt.Run(); err != nil {
				return "ok runerr"
			}
			pages := 0
			for _, name := range names {
				var win []*asset.Snapshot
				for _, s := range data[name] {
					if s.Date.Equal(since) || s.Date.After(since) {
						win = append(win, s)
					}
				}
				for _, st := range ss {
					if btNameCount[st.Name()] != 1 {
						continue // two strategies of one name write the same file
					}
					raw, err := os.ReadFile(filepath.Join(dir, fmt.Sprintf("%s - %s.html", name, st.Name())))
					if err != nil {
						if len(win) == 0 {
							continue
						}
						return fmt.Sprintf("ok missing-page:%s:%s", name, strings.ReplaceAll(st.Name(), " ", "_"))
					}
					var cells []string
					lines := strings.Split(string(raw), "\n")
					for i, line := range lines {
						if strings.HasPrefix(strings.TrimSpace(line), "data.addRow([") && i+1 < len(lines) {
							cells = append(cells, strings.TrimSuffix(strings.TrimSpace(lines[i+1]), ","))
						}
					}
					if len(cells) > len(win) {
						return fmt.Sprintf("ok page-rows:%s:%s:%d>%d", name, strings.ReplaceAll(st.Name(), " ", "_"), len(cells), len(win))
					}
					first := len(win) - len(cells)
					for k, c := range cells {
						if !rendersDay(c, win[first+k].Date) {
							return fmt.Sprintf("ok page-date:%s:%s:row=%d:%s:snapshot-date=%s", name, strings.ReplaceAll(st.Name(), " ", "_"), k, strings.ReplaceAll(c, " ", "_"), win[first+k].Date.Format("2006-01-02"))
						}
					}
					pages++
				}
			}
			return fmt.Sprintf("ok fine pages=%d", pages)
		case "html":
			dir, err := os.MkdirTemp("", "ivbt")
			if err != nil {
				return "ERR " + err.Error()
			}
			defer os.RemoveAll(dir)
			rep := backtest.NewHTMLReport(dir)
			rep.WriteStrategyReports = false
			rep.Logger = quiet
			bt := backtest.NewBacktest(repo, rep)
			bt.Names, bt.Strategies, bt.Workers, bt.LastDays, bt.Logger = runNames, ss, workers, lastDays, quiet
			if seed%5 == 2 && len(names) > 0 {
				// a first run in which one asset page cannot be written (a directory is in its way); once the obstacle is gone the
				// same Backtest and report objects must produce the complete output
				obstacle := filepath.Join(dir, names[0]+".html")
				os.Mkdir(obstacle, 0o755)
				bt.Run() // may fail: that is what the obstacle is for
				os.Remove(obstacle)
			}
			if err := bt.Run(); err != nil {
				return "ok runerr"
			}
			// rankings: outcomes listed in the generated pages must be non-increasing
			check := func(file string) (int, string) {
				raw, err := os.ReadFile(filepath.Join(dir, file))
				if err != nil {
					return 0, "missing " + file
				}
				var outs []float64
				for _, line := range strings.Split(string(raw), "\n") {
					t := strings.TrimSpace(line)
					if strings.HasSuffix(t, "%</td>") || strings.HasSuffix(t, "%") {
						t = strings.TrimSuffix(strings.TrimSuffix(t, "</td>"), "%")
						if i := strings.LastIndex(t, ">"); i >= 0 {
							t = t[i+1:]
						}
						if v, err := strconv.ParseFloat(strings.TrimSpace(t), 64); err == nil {
							outs = append(outs, v)
						}
					}
				}
				// non-increasing on the defined outcomes; an undefined outcome (NaN) ranks below every defined one
				prevDef, seenUndef := math.Inf(1), false
				for i := 0; i < len(outs); i++ {
					if math.IsNaN(outs[i]) {
						seenUndef = true
						continue
					}
					if outs[i] > prevDef {
						return len(outs), fmt.Sprintf("unsorted:%s:%v>%v", file, outs[i], prevDef)
					}
					if seenUndef {
						return len(outs), fmt.Sprintf("unsorted:%s:defined-%v-after-undefined", file, outs[i])
					}
					prevDef = outs[i]
				}
				return len(outs), ""
			}
			// exact ranking: the rows must be in non-increasing order of the *exact* outcomes (the printed two
			// decimals cannot show differences below 0.01), and the index must present each asset's maximum
			exact := func(k string) float64 {
				v, _ := floatOfHex(strings.SplitN(expect[k], ",", 2)[1])
				if v == noOutcome {
					return math.NaN() // no snapshot in the window: nothing to rank
				}
				return v
			}
			rowRe := regexp.MustCompile(`<a href="[^"]* - ([^"]*)\.html">`)
			for _, n := range names {
				raw, _ := os.ReadFile(filepath.Join(dir, n+".html"))
				prev, undef := math.Inf(1), false
				for _, m := range rowRe.FindAllStringSubmatch(string(raw), -1) {
					sn0 := html.UnescapeString(m[1])
					if btNameCount[sn0] != 1 {
						prev, undef = math.Inf(1), false // two strategies share this name: their rows cannot be told apart here
						continue
					}
					v := exact(n + "/" + byName[sn0])
					if math.IsNaN(v) {
						undef = true // an undefined outcome: ranks below every defined one
						continue
					}
					if v > prev || undef {
						return fmt.Sprintf("ok unsorted-exact:%s:%s:%v>%v(undefined-before=%v)", n, strings.ReplaceAll(m[1], " ", "_"), v, prev, undef)
					}
					prev = v
				}
			}
			idxRe := regexp.MustCompile(`(?s)<td><a href="([^"]*)\.html">[^<]*</a></td>\s*<td>([^<]*)</td>`)
			rawIdx, _ := os.ReadFile(filepath.Join(dir, "index.html"))
			var prevBest float64
			for i, m := range idxRe.FindAllStringSubmatch(string(rawIdx), -1) {
				an, sn := m[1], html.UnescapeString(strings.TrimSpace(m[2]))
				if btNameCount[sn] != 1 {
					prevBest = math.Inf(1) // the best entry is one of two strategies of the same name: not comparable here
					continue
				}
				v := exact(an + "/" + byName[sn])
				for _, s := range ss {
					if o := exact(an + "/" + skey(s)); o > v || (math.IsNaN(v) && !math.IsNaN(o)) {
						return fmt.Sprintf("ok best-not-max:%s:%s:%v<%v", an, strings.ReplaceAll(sn, " ", "_"), v, o)
					}
				}
				if math.IsNaN(v) {
					continue // an asset all of whose outcomes are undefined: ranks after the others, nothing to compare
				}
				if i > 0 && v > prevBest {
					return fmt.Sprintf("ok unsorted-exact:index:%s:%v>%v", an, v, prevBest)
				}
				prevBest = v
			}
			rows := 0
			for _, n := range names {
				k, p := check(n + ".html")
				if p != "" {
					return "ok " + p
				}
				if k != len(ss) {
					return fmt.Sprintf("ok rows:%s:%d!=%d", n, k, len(ss))
				}
				rows += k
			}
			k, p := check("index.html")
			if p != "" {
				return "ok " + p
			}
			if k != len(names) {
				return fmt.Sprintf("ok rows:index:%d!=%d", k, len(names))
			}
			return fmt.Sprintf("ok fine rows=%d", rows+k)
		}
		return "ERR unknown report"
	})
}

func init() {
	extraHandlers["REPO"] = func(a []string) string {
		if len(a) != 2 {
			return "ERR bad-command"
		}
		return runRepo(a[0], a[1])
	}
	extraHandlers["CSVRT"] = func(a []string) string { return runCsvRT(a) }
	extraHandlers["CSVFILE"] = func(a []string) string { return runCsvFile(a) }
	extraHandlers["JSONRT"] = func(a []string) string { return runJSONRT(a) }
	extraHandlers["CSVBAD"] = func(a []string) string { return census(func() string { return runCsvBad(a) }) }
	extraHandlers["JSONBAD"] = func(a []string) string { return census(func() string { return runJSONBad(a) }) }
	extraHandlers["TIINGO"] = func(a []string) string { return runTiingo(a) }
	extraHandlers["SYNC"] = func(a []string) string {
		if len(a) != 9 {
			return "ERR bad-command"
		}
		return runSync(a)
	}
	extraHandlers["BT"] = func(a []string) string {
		if len(a) != 7 {
			return "ERR bad-command"
		}
		return runBacktest(a)
	}
}
